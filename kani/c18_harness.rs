
// ---- appended by /verif/tools/kani_c18.py (scratch copy only; never committed to the repository) ----
#[cfg(kani)]
mod verif_kani_c18 {
    use super::*;

    fn shape_of(s: u8) -> ImageBackgroundShape {
        match s { 0 => ImageBackgroundShape::Square, 1 => ImageBackgroundShape::Circle, _ => ImageBackgroundShape::RoundedSquare }
    }

    /// Default frame geometry, all 40 sizes x 3 shapes, loop-free: a complete proof over the finite domain.
    #[kani::proof]
    fn c18_default_frame_table() {
        let v: usize = kani::any();
        kani::assume(v < 40);
        let s: u8 = kani::any();
        kani::assume(s < 3);
        let n = 21 + 4 * v;
        let (border, image) = SvgBuilder::image_placement(shape_of(s), n);
        // frame side: an odd whole number of modules, at least 5
        assert!(border >= 5.0 && border == (border as u64) as f64 && (border as u64) % 2 == 1);
        // below 40% of the symbol side and clear of the finder patterns + separators (8 modules each side)
        assert!(border < 0.4 * (n as f64));
        assert!(((n as f64) - border) / 2.0 >= 8.0);
        // centred on module boundaries: n - border is even, so (n - border) / 2 is a whole number of modules
        assert!(((n as u64) - (border as u64)) % 2 == 0);
        // image: whole number, at least 1, no larger than the frame
        assert!(image >= 1.0 && image <= border && image == (image as u64) as f64);
        // frame never shrinks as the version grows
        if v < 39 {
            let (border2, _) = SvgBuilder::image_placement(shape_of(s), n + 4);
            assert!(border2 >= border);
        }
    }
}
