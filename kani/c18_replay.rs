
// ---- appended by /verif/tools/kani_c18.py for replay (scratch copy only) ----
#[cfg(test)]
mod verif_replay_c18 {
    use super::*;
    #[test]
    fn sweep() {
        let shapes = [ImageBackgroundShape::Square, ImageBackgroundShape::Circle, ImageBackgroundShape::RoundedSquare];
        for v in 0..40usize {
            for (si, s) in shapes.iter().enumerate() {
                let n = 21 + 4 * v;
                let (border, image) = SvgBuilder::image_placement(*s, n);
                let mut bad = Vec::new();
                if !(border >= 5.0 && border == (border as u64) as f64 && (border as u64) % 2 == 1) { bad.push("frame side is not an odd whole number >= 5"); }
                if !(border < 0.4 * (n as f64)) { bad.push("frame side >= 40% of the symbol side"); }
                if !(((n as f64) - border) / 2.0 >= 8.0) { bad.push("frame overlaps finder/separator band"); }
                if border == (border as u64) as f64 && !(((n as u64) - (border as u64)) % 2 == 0) { bad.push("frame not module-aligned when centred"); }
                if !(image >= 1.0 && image <= border && image == (image as u64) as f64) { bad.push("image size not a whole number in 1..=frame"); }
                if v < 39 { let (b2, _) = SvgBuilder::image_placement(*s, n + 4); if !(b2 >= border) { bad.push("frame shrinks with the next version"); } }
                for b in bad { println!("REPLAY-FAIL version={} shape={} side={} frame={} image={} :: {}", v + 1, si, n, border, image, b); }
            }
        }
    }
}
