"""C17 bounded stand-in: wasm.rs compiled natively inside a SCRATCH copy (outside /repo and /verif, removed
afterwards) and exercised by native/c17_harness.rs (colour strings of any content, option arrays of any length,
matrix and SVG equality with the native builders).  Edits made to the scratch copy only:
  lib.rs   `#[cfg(target_arch = "wasm32")]` on `mod wasm;` / `pub use wasm::*;` -> `#[cfg(feature = "svg")]`,
           `mod tests;` dropped (needs dev-dependencies);
  wasm.rs  one appended line `#[cfg(test)] #[path = ...] mod verif_c17_harness;`;
  Cargo.toml replaced by a minimal manifest (same package name/edition/features, no dev-dependencies/benches)."""
import hashlib, json, os, re, shutil, subprocess, sys, tempfile, time
HERE = os.path.dirname(os.path.abspath(__file__))
VERIF = os.path.dirname(HERE)
REPO = os.environ.get('VERIF_REPO', '/repo')

MANIFEST = '''[package]
name = "fast_qr"
version = "0.0.0"
edition = "2021"

[features]
svg = []

[workspace]
'''


def run(timeout=1200):
    repo = os.path.abspath(REPO)
    h = hashlib.sha256()
    for dp, dn, fn in sorted(os.walk(os.path.join(repo, 'src'))):
        dn.sort()
        for f in sorted(fn):
            h.update(open(os.path.join(dp, f), 'rb').read())
    h.update(open(os.path.join(VERIF, 'native', 'c17_harness.rs'), 'rb').read())
    cpath = os.path.join(VERIF, '.cache', 'c17-%s.json' % h.hexdigest()[:20])
    if os.path.exists(cpath) and not os.environ.get('VERIF_NOCACHE'):
        r = json.load(open(cpath)); r['cached'] = True
        return r
    scratch = tempfile.mkdtemp(prefix='verif_c17_')
    t0 = time.time()
    try:
        shutil.copytree(os.path.join(repo, 'src'), os.path.join(scratch, 'src'))
        open(os.path.join(scratch, 'Cargo.toml'), 'w').write(MANIFEST)
        lib = os.path.join(scratch, 'src', 'lib.rs')
        t = open(lib).read()
        t2 = re.sub(r'#\[cfg\(target_arch = "wasm32"\)\]\s*\n(mod wasm;|pub use wasm::\*;)', r'#[cfg(feature = "svg")]\n\1', t)
        t2 = re.sub(r'#\[cfg\(test\)\]\s*\nmod tests;', '', t2)
        if t2.count('#[cfg(feature = "svg")]\nmod wasm;') != 1:
            return {'ok': None, 'reason': 'lib.rs no longer declares `#[cfg(target_arch = "wasm32")] mod wasm;`', 'failures': [], 'cmd': '', 'wall_s': 0, 'evaluations': 0}
        open(lib, 'w').write(t2)
        shutil.copy(os.path.join(VERIF, 'native', 'c17_harness.rs'), os.path.join(scratch, 'src', 'verif_c17_harness.rs'))
        with open(os.path.join(scratch, 'src', 'wasm.rs'), 'a') as f:
            f.write('\n#[cfg(all(test, feature = "svg"))]\n#[path = "verif_c17_harness.rs"]\nmod verif_c17_harness;\n')
        env = dict(os.environ, CARGO_NET_OFFLINE='true', CARGO_TARGET_DIR=os.path.join(scratch, 'target'))
        cmd = ['cargo', 'test', '--offline', '--lib', '--features', 'svg', 'verif_c17_native', '--', '--nocapture', '--test-threads', '1']
        p = subprocess.run(cmd, cwd=scratch, capture_output=True, text=True, env=env, timeout=timeout)
        out = p.stdout + '\n' + p.stderr
        fails = [l[len('C17-FAIL '):] for l in out.split('\n') if l.startswith('C17-FAIL ')]
        m = re.search(r'C17-SUMMARY evaluations=(\d+) colour_strings=(\d+) failures=(\d+)', out)
        if not m:
            r = {'ok': None, 'reason': 'harness did not build or run: ' + ' | '.join([l for l in out.split('\n') if l.startswith('error')][:4]) + out[-300:].replace('\n', ' | '), 'failures': [], 'cmd': ' '.join(cmd), 'wall_s': round(time.time() - t0, 1), 'evaluations': 0}
        else:
            r = {'ok': int(m.group(3)) == 0, 'failures': fails, 'evaluations': int(m.group(1)), 'colour_strings': int(m.group(2)), 'n_failures': int(m.group(3)),
                 'cmd': ' '.join(cmd) + '   (in a scratch copy, see tools/native_c17.py)', 'wall_s': round(time.time() - t0, 1)}
        r['cached'] = False
        os.makedirs(os.path.dirname(cpath), exist_ok=True)
        json.dump(r, open(cpath, 'w'))
        return r
    finally:
        shutil.rmtree(scratch, ignore_errors=True)


if __name__ == '__main__':
    r = run()
    print(json.dumps(r, indent=1)[:4000])
