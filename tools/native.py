"""Bounded native oracle driver (see native/src/main.rs).

Builds /verif/native as a tiny cargo crate with a *path dependency on the repository under test* (nothing is
written into the repository: the lock file and the target directory live under /verif/.cache/native) and runs
its deterministic corpus.  Used
  * as the labelled bounded stand-in when the deductive check of a property is UNDECIDED in the current tree,
  * to attach a concrete failing input to a failed proof obligation (replay),
  * as the extra exploration of the thorough tier.
"""
import hashlib
import json
import os
import subprocess
import sys
import time

HERE = os.path.dirname(os.path.abspath(__file__))
VERIF = os.path.dirname(HERE)
REPO = os.environ.get('VERIF_REPO', '/repo')
ROOT = os.path.join(VERIF, '.cache', 'native')
PROPS = ['C01', 'C02', 'C03', 'C04', 'C05', 'C06', 'C07', 'C08', 'C09', 'C10', 'C11', 'C14', 'C15', 'C16']

CARGO_TOML = '''[package]
name = "fastqr_native"
version = "0.0.0"
edition = "2021"

[dependencies]
fast_qr = { path = "%s", default-features = false, features = ["svg"] }
qrcode = { version = "0.12.0", default-features = false }   # only for `selfcheck` (oracle vs an independent encoder)

# the dependency is compiled with the checks the property statements assume ("debug assertions on")
[profile.release]
opt-level = 2
debug-assertions = true
overflow-checks = true
debug = false

[workspace]
'''


class NativeUnavailable(Exception):
    pass


def _src_hash(repo):
    h = hashlib.sha256()
    for base in (os.path.join(repo, 'src'), os.path.join(VERIF, 'native', 'src')):
        for dp, dn, fn in sorted(os.walk(base)):
            dn.sort()
            for f in sorted(fn):
                if f.endswith('.rs'):
                    p = os.path.join(dp, f)
                    h.update(p.encode())
                    h.update(open(p, 'rb').read())
    for f in ('Cargo.toml',):
        p = os.path.join(repo, f)
        if os.path.exists(p):
            h.update(open(p, 'rb').read())
    return h.hexdigest()


def build(repo=None):
    """Returns the path of the oracle binary built against `repo` (current working tree)."""
    repo = os.path.abspath(repo or REPO)
    import gen_native_tables
    tp = os.path.join(VERIF, 'native', 'src', 'tables.rs')
    want = gen_native_tables.text()
    if not os.path.exists(tp) or open(tp).read() != want:
        open(tp, 'w').write(want)
    key = hashlib.sha1(repo.encode()).hexdigest()[:10]
    crate = os.path.join(ROOT, 'crate-' + key)
    os.makedirs(crate, exist_ok=True)
    toml = CARGO_TOML % repo
    tpath = os.path.join(crate, 'Cargo.toml')
    if not os.path.exists(tpath) or open(tpath).read() != toml:
        open(tpath, 'w').write(toml)
    link = os.path.join(crate, 'src')
    if not os.path.islink(link):
        if os.path.exists(link):
            import shutil
            shutil.rmtree(link)
        os.symlink(os.path.join(VERIF, 'native', 'src'), link)
    env = dict(os.environ, CARGO_TARGET_DIR=os.path.join(ROOT, 'target-' + key), CARGO_NET_OFFLINE='true')
    p = subprocess.run(['cargo', 'build', '--release', '--offline', '--quiet'], cwd=crate, env=env, capture_output=True, text=True)
    exe = os.path.join(ROOT, 'target-' + key, 'release', 'fastqr_native')   # one target dir per tree: the binary path must never be shared between trees
    if p.returncode != 0 or not os.path.exists(exe):
        raise NativeUnavailable('native oracle does not build against this tree: ' + (p.stderr or '')[-600:].replace('\n', ' | '))
    return exe


def sweep(props, size='quick', seed=0, repo=None):
    """Runs the corpus.  Returns dict(summary, failures=[...], cmd, wall_s, cached)."""
    repo = os.path.abspath(repo or REPO)
    props = [p for p in props if p in PROPS]
    if not props:
        raise NativeUnavailable('no native clause for these properties')
    key = hashlib.sha1(('%s|%s|%s|%s' % (_src_hash(repo), size, seed, ','.join(sorted(props)))).encode()).hexdigest()[:20]
    cpath = os.path.join(ROOT, 'sweep-%s.json' % key)
    if os.path.exists(cpath) and not os.environ.get('VERIF_NOCACHE'):
        r = json.load(open(cpath))
        r['cached'] = True
        return r
    exe = build(repo)
    t0 = time.time()
    cmd = [exe, 'sweep', size, str(seed), ','.join(sorted(props))]
    p = subprocess.run(cmd, capture_output=True, text=True, timeout=3600)
    fails, summary = [], None
    for l in p.stdout.splitlines():
        try:
            o = json.loads(l)
        except Exception:
            continue
        if o.get('summary'):
            summary = o
        elif o.get('fail'):
            fails.append(o)
    if summary is None:
        raise NativeUnavailable('native oracle crashed (exit %s): %s' % (p.returncode, (p.stderr or p.stdout)[-400:]))
    if summary.get('failures', 0) and not fails:
        raise NativeUnavailable('native oracle reported %d failures but none could be parsed' % summary['failures'])
    r = {'summary': summary, 'failures': fails, 'cmd': ' '.join(cmd), 'wall_s': round(time.time() - t0, 2), 'cached': False,
         'bound': 'deterministic corpus "%s" seed %s: %d single cases + %d groups of 9 builds (8 forced masks + automatic); all 480 (mode, level, version) capacity boundaries, all 40 versions, all 256 byte values for mode detection' % (size, seed, summary.get('single_cases', 0), summary.get('mask_groups', 0))}
    try:
        r['oracle_selfcheck_vs_qrcode_0_12'] = json.load(open(os.path.join(ROOT, 'selfcheck.json')))['result']
    except Exception:
        r['oracle_selfcheck_vs_qrcode_0_12'] = 'not run (tools/setup.py runs it)'
    os.makedirs(ROOT, exist_ok=True)
    json.dump(r, open(cpath, 'w'))
    return r


def c18(size='quick', seed=0, repo=None):
    """Bounded stand-in for SvgBuilder::image(): default placement exhaustively (40 versions x 3 shapes x margins
    0..16) and sampled size/gap/position overrides, read back from the SVG text."""
    exe = build(repo)
    t0 = time.time()
    cmd = [exe, 'c18', size, str(seed)]
    p = subprocess.run(cmd, capture_output=True, text=True, timeout=1200)
    fails, summary = [], None
    for l in p.stdout.splitlines():
        try:
            o = json.loads(l)
        except Exception:
            continue
        if o.get('summary'):
            summary = o
        elif o.get('fail'):
            fails.append(o)
    if summary is None:
        raise NativeUnavailable('native C18 harness crashed (exit %s): %s' % (p.returncode, (p.stderr or p.stdout)[-400:]))
    return {'summary': summary, 'failures': fails, 'cmd': ' '.join(cmd), 'wall_s': round(time.time() - t0, 2)}


def selfcheck(repo=None):
    """The oracle's ISO transcription against the independent qrcode 0.12 crate (960 cases, every version/level/mode)."""
    exe = build(repo)
    p = subprocess.run([exe, 'selfcheck'], capture_output=True, text=True, timeout=1200)
    last = [l for l in p.stdout.splitlines() if l.startswith('{')]
    return {'rc': p.returncode, 'result': json.loads(last[-1]) if last else None, 'failures': [l for l in p.stdout.splitlines() if l.startswith('SELFCHECK-FAIL')][:10]}


def replay_case(case, repo=None):
    """Re-runs one recorded case against the current tree; returns the list of failures."""
    exe = build(repo)
    o = lambda k: '-' if case.get(k) is None else str(case[k])
    p = subprocess.run([exe, 'case', case['input_hex'], o('ecl'), o('version0'), o('mask'), o('mode')], capture_output=True, text=True, timeout=600)
    out = []
    for l in p.stdout.splitlines():
        try:
            j = json.loads(l)
        except Exception:
            continue
        if j.get('fail'):
            out.append(j)
    return out


def rust_snippet(case):
    """A self-contained reproduction against the public API."""
    L = ['L', 'M', 'Q', 'H']
    M = ['Checkerboard', 'HorizontalLines', 'VerticalLines', 'DiagonalLines', 'LargeCheckerboard', 'Fields', 'Diamonds', 'Meadow']
    D = ['Numeric', 'Alphanumeric', 'Byte']
    s = 'let input: Vec<u8> = vec![%s];\nlet mut b = fast_qr::QRBuilder::new(input);\n' % ', '.join('0x' + case['input_hex'][i:i + 2] for i in range(0, len(case['input_hex']), 2))
    if case.get('ecl') is not None:
        s += 'b.ecl(fast_qr::ECL::%s);\n' % L[case['ecl']]
    if case.get('version0') is not None:
        s += 'b.version(fast_qr::Version::V%02d);\n' % (case['version0'] + 1)
    if case.get('mask') is not None:
        s += 'b.mask(fast_qr::Mask::%s);\n' % M[case['mask']]
    if case.get('mode') is not None:
        s += 'b.mode(fast_qr::Mode::%s);\n' % D[case['mode']]
    return s + 'let qr = b.build();\n'


if __name__ == '__main__':
    a = sys.argv[1:]
    r = sweep(a[2].split(',') if len(a) > 2 and a[2] != 'all' else PROPS, a[0] if a else 'quick', int(a[1]) if len(a) > 1 else 0)
    print(json.dumps({k: v for k, v in r.items() if k != 'failures'}, indent=1))
    for f in r['failures']:
        print(json.dumps(f))
    sys.exit(1 if r['failures'] else 0)
