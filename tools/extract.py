"""Mechanical extraction of /repo/src/*.rs into Verus-ingestible module texts.

Nothing here is specific to one function: items are dropped by *kind*
(cfg(test), Display/Debug/Error impls, ...), loops are normalised by *header
shape* (rules R*/K*/P*), and every applied rule is recorded so the evidence
files can state exactly what differs between /repo and the verified text.

A construct that matches no rule raises `Unsupported` -> the caller reports
UNDECIDED (exit 2), never a violation.
"""
import re
from rustlex import mask, match_close, item_end, skip_attrs_and_docs, split_top

CORE_MODS = ['module', 'ecl', 'version', 'hardcode', 'compact', 'encode',
             'polynomials', 'default', 'datamasking', 'placement', 'score', 'qr', 'helpers']


class Unsupported(Exception):
    pass


# ---------------------------------------------------------------- drops ----
DROP_ATTRS = [
    r'#\[rustfmt::skip\]', r'#\[inline(\(always\))?\]', r'#\[allow\([^\]]*\)\]',
    r'#\[must_use\]', r'#\[doc\(hidden\)\]', r'#\[cfg_attr\((?:[^\[\]]|\[[^\]]*\])*\)\]', r'#\[repr\(\w+\)\]',
    r'#\[macro_use\]',
    r'#\[cfg\(not\(target_arch = "wasm32"\)\)\]',
    r'#\[cfg\(any\(test, feature = "svg", feature = "image", debug_assertions\)\)\]',
    r'#\[cfg\(debug_assertions\)\]',
    r'#\[cfg\(feature = "svg"\)\]',
    r'#\[cfg\(not\(feature = "wasm-bindgen"\)\)\]',
]
DROP_ITEM_ATTRS = [
    r'#\[cfg\(test\)\]',
    r'#\[cfg\(target_arch = "wasm32"\)\]',
    r'#\[cfg\(feature = "wasm-bindgen"\)\]',
    r'#\[cfg\(all\(target_arch = "wasm32", feature = "wasm-bindgen"\)\)\]',
]
DROP_IMPLS = r'\bimpl\s+(?:core::fmt::|std::fmt::|std::error::)?(?:Debug|Display|Error)\s+for\b'


def _drop_items(src, pat, log, what):
    while True:
        msk = mask(src)
        m = None
        for cand in re.finditer(pat, src):
            if msk[cand.start()] == src[cand.start()] and not src[cand.start()].isspace():
                m = cand
                break
        if not m:
            return src
        # include leading doc comments / attributes directly above
        start = m.start()
        ls = src.rfind('\n', 0, start) + 1
        while True:
            pl = src.rfind('\n', 0, ls - 1) + 1 if ls > 0 else 0
            prev = src[pl:ls].strip()
            if ls > 0 and (prev.startswith('///') or prev.startswith('#[')):
                ls = pl
            else:
                break
        hdr = skip_attrs_and_docs(src, msk, m.start())
        end = item_end(msk, hdr)
        first = src[hdr:min(end, hdr + 60)].split('\n')[0].strip()
        if re.match(r'(pub(\([a-z]+\))?\s+)?use\b', first) and src[end:end + 1] == ';':
            end += 1   # `use a::{b, c};` — the item ends at the semicolon, not at the closing brace
        log.append('drop %s: %s' % (what, first))
        src = src[:ls] + src[end:]


def _drop_println_fns(src, log):
    """IO1: a function whose body writes to stdout (`println!`/`print!`) is dropped (terminal I/O has no contract)."""
    while True:
        msk = mask(src)
        hit = None
        for name, kw, bo, bc in find_fns(src, msk):
            if re.search(r'\b(?:println|print|eprintln|eprint)!', msk[bo:bc]):
                hit = (name, kw, bc)
                break
        if not hit:
            return src
        name, kw, bc = hit
        st = item_start(src, kw)
        ls = src.rfind('\n', 0, st) + 1
        log.append('IO1 drop fn %s (body uses println!)' % name)
        src = src[:ls] + src[bc + 1:]


def fmt_rewrites(src, log):
    """F1: `format!("<lit>")` whose format string consists of inline `{IDENT}` placeholders and literal characters only
    becomes a call of a generated helper `__fmt_K(IDENT, ..)` (external_body, real `format!` inside) with the ASSUMED
    contract `r@ == <the characters in order>`, every placeholder being a `char` (Display of a char is that char)."""
    helpers = []
    k = 0
    while True:
        msk = mask(src)
        m = re.search(r'\bformat!\(', msk)
        if not m:
            break
        o = m.end() - 1
        c = match_close(msk, o)
        arg = src[o + 1:c].strip()
        mm = re.fullmatch(r'"((?:[^"\\{}]|\\[nt\\"]|\{\w+\})*)"', arg)
        if not mm:
            log.append('UNSUPPORTED format! shape: %s' % arg[:60])
            src = src[:m.start()] + '/*@unsupported*/ __unsupported_format()' + src[c + 1:]
            continue
        parts = re.findall(r'\{(\w+)\}|(\\.|[^\\{}])', mm.group(1))
        args, elems, fmt = [], [], ''
        for ident, lit in parts:
            if ident:
                a = 'a%d' % len(args)
                args.append(ident)
                elems.append(a)
                fmt += '{%s}' % a
            else:
                elems.append("'%s'" % (lit if lit != "'" else "\\'"))
                fmt += lit
        name = '__fmt_%d' % k
        k += 1
        helpers.append('#[verifier::external_body]\nfn %s(%s) -> (r: String)\n    ensures r@ == seq![%s],\n{ format!("%s") }\n'
                       % (name, ', '.join('a%d: char' % i for i in range(len(args))), ', '.join(elems), fmt))
        src = src[:m.start()] + '%s(%s)' % (name, ', '.join(args)) + src[c + 1:]
        log.append('F1 format!(%s) -> %s(%s) [assumed: result is exactly these characters]' % (arg, name, ', '.join(args)))
    if helpers:
        src = src.rstrip('\n') + '\n\n// ---- F1 helpers (generated)\n' + '\n'.join(helpers)
    return src


def apply_drops(src, log):
    # inner attributes and inner doc comments
    src = re.sub(r'^#!\[[^\n]*\]\n', '', src, flags=re.M)
    src = re.sub(r'^\s*//![^\n]*\n', '', src, flags=re.M)
    for a in DROP_ITEM_ATTRS:
        src = _drop_items(src, a, log, 'cfg-gated item')
    src = _drop_items(src, DROP_IMPLS, log, 'fmt/Error impl')
    src = _drop_println_fns(src, log)
    for a in DROP_ATTRS:
        src, n = re.subn(r'[ \t]*' + a + r'[ \t]*\n?', '', src)
        if n:
            log.append('strip attribute %s x%d' % (a.replace('\\', ''), n))
    # Debug out of derive lists
    src = re.sub(r'(#\[derive\([^\)]*?)\bDebug\b\s*,?\s*', r'\1', src)
    src = re.sub(r',\s*\)\]', ')]', src)
    # doc comments left dangling before a closing brace (their item was dropped)
    src = re.sub(r'(?:[ \t]*///[^\n]*\n)+(\s*\})', r'\1', src)
    return src


# ------------------------------------------------------- nested items (H1) --
def find_fns(src, msk):
    """Yield (name, fn_kw_pos, body_open, body_close) for every fn with a body."""
    for m in re.finditer(r'\bfn\s+(\w+)', msk):
        k = m.end()
        depth = 0
        n = len(msk)
        body = None
        while k < n:
            ch = msk[k]
            if ch in '([<' and not (ch == '<' and msk[k - 1] == '-'):
                if ch != '<':
                    depth += 1
            elif ch in ')]':
                depth -= 1
            elif ch == ';' and depth == 0:
                break
            elif ch == '{' and depth == 0:
                body = k
                break
            k += 1
        if body is not None:
            yield m.group(1), m.start(), body, match_close(msk, body)


def item_start(src, pos):
    """Walk back from a keyword position over visibility, attributes, docs."""
    ls = src.rfind('\n', 0, pos) + 1
    while ls > 0:
        pl = src.rfind('\n', 0, ls - 1) + 1
        prev = src[pl:ls].strip()
        if prev.startswith('///') or prev.startswith('#['):
            ls = pl
        else:
            break
    return ls


def hoist_nested(src, log):
    while True:
        msk = mask(src)
        fns = list(find_fns(src, msk))
        moved = False
        for name, kw, bo, bc in fns:
            inner = re.search(r'\b(fn|enum|struct)\s+(\w+)', msk[bo + 1:bc])
            if not inner:
                continue
            ik = bo + 1 + inner.start()
            istart = item_start(src, ik)
            iend = item_end(msk, ik)
            text = src[istart:iend]
            ostart = item_start(src, kw)
            log.append('H1 hoist nested %s %s out of fn %s' % (inner.group(1), inner.group(2), name))
            # dedent one level
            text = re.sub(r'^    ', '', text, flags=re.M)
            src = src[:ostart] + text.rstrip() + '\n\n' + src[ostart:istart] + src[iend:].lstrip('\n')
            moved = True
            break
        if not moved:
            return src


# ------------------------------------------------------------ loop rules ----
def _first_ident(pat):
    m = re.search(r'[A-Za-z_]\w*', pat)
    if not m or m.group(0) == '_':
        m2 = re.findall(r'[A-Za-z]\w*', pat)
        return m2[0] if m2 else 'x'
    return m.group(0)


def _range_parts(expr):
    """expr like `A..B` or `A..=B` (no enclosing parens) -> (A, B, inclusive)"""
    msk = mask(expr)
    parts = split_top(msk, 0, len(expr), '..')
    if len(parts) != 2:
        return None
    a = expr[parts[0][0]:parts[0][1]].strip()
    b = expr[parts[1][0]:parts[1][1]].strip()
    incl = False
    if b.startswith('='):
        incl = True
        b = b[1:].strip()
    if not a or not b:
        return None
    return a, b, incl


def _simple_path(e):
    return re.fullmatch(r'[A-Za-z_][\w]*(\.[A-Za-z_]\w*)*', e) is not None


def rewrite_for(pat, expr, arrays):
    """Return (prelude, while_header, body_prelude, rule) or None to leave the loop native."""
    pat = pat.strip()
    expr = expr.strip()
    v = _first_ident(pat)
    it, end = '__it_' + v, '__end_' + v

    def bind_elem(p, e):
        p = p.strip()
        if p.startswith('&'):
            p = p[1:].strip()
        return 'let %s = %s;' % (p, e)

    # parenthesised range with adapters
    m = None
    if expr.startswith('('):
        pc = match_close(mask(expr), 0)
        if re.fullmatch(r'(?:\.\w+\([^()]*\))*', expr[pc + 1:]) and _range_parts(expr[1:pc]):
            m = (expr[1:pc], expr[pc + 1:])
    if m and not re.search(r'\.chain\(', m[1]):
        a, b, incl = _range_parts(m[0])
        adapters = re.findall(r'\.(\w+)\(([^()]*)\)', m[1])
        names = [x[0] for x in adapters]
        step = '1'
        for nme, arg in adapters:
            if nme == 'step_by':
                step = arg.strip()
        if names in ([], ['step_by']):
            cmp_ = '<=' if incl else '<'
            return ('let __start_%s: usize = %s; let mut %s: usize = __start_%s; let %s: usize = %s;' % (v, a, it, v, end, b),
                    'while %s %s %s' % (it, cmp_, end),
                    'let %s = %s; %s = %s + %s;' % (pat, it, it, it, step),
                    'R1 range%s step_by(%s)' % ('=' if incl else '', step) if names else 'K0 range')
        if names == ['step_by', 'enumerate'] and not incl:
            mm = re.fullmatch(r'\(\s*(\w+)\s*,\s*(\w+)\s*\)', pat)
            if not mm:
                raise Unsupported('enumerate pattern ' + pat)
            start = '__start_' + v
            # the enumerate counter is a function of the iterator position: (it - start) / step
            bp = 'let %s = (%s - %s) / %s;' % (mm.group(1), it, start, step)
            if mm.group(2) != '_':
                bp += ' let %s = %s;' % (mm.group(2), it)
            bp += ' %s = %s + %s;' % (it, it, step)
            return ('let %s: usize = %s; let mut %s: usize = %s; let %s: usize = %s;' % (start, a, it, start, end, b),
                    'while %s < %s' % (it, end), bp, 'R4 range step_by(%s) enumerate' % step)
        if names in (['rev'], ['rev', 'step_by']) and incl:
            lo, more = '__lo_' + v, '__more_' + v
            return ('let %s: usize = %s; let %s: usize = %s; let mut %s: usize = %s; let mut %s: bool = %s <= %s;'
                    % (lo, a, end, b, it, end, more, lo, end),
                    'while %s' % more,
                    'let %s = %s; if %s >= %s + %s { %s = %s - %s; } else { %s = false; }'
                    % (pat, it, it, lo, step, it, it, step, more),
                    'R2 range= rev step_by(%s)' % step)
        raise Unsupported('range adapters ' + expr)
    # chain of two ranges, reversed, stepped (R7)
    m = re.fullmatch(r'\((.*?)\)\.chain\((.*?)\)\.rev\(\)\.step_by\((\w+)\)', expr, flags=re.S)
    if m:
        r1, r2 = _range_parts(m.group(1)), _range_parts(m.group(2))
        if not r1 or not r2 or r1[2] or r2[2]:
            raise Unsupported('chain ' + expr)
        k = '__k_' + v
        pre = ('let __a_%s: usize = %s; let __b_%s: usize = %s; let __c_%s: usize = %s; let __d_%s: usize = %s; '
               % (v, r1[0], v, r1[1], v, r2[0], v, r2[1]))
        pre += ('let __l1_%s: usize = if __b_%s > __a_%s { __b_%s - __a_%s } else { 0 }; '
                'let __l2_%s: usize = if __d_%s > __c_%s { __d_%s - __c_%s } else { 0 }; '
                'let __tot_%s: usize = __l1_%s + __l2_%s; let mut %s: usize = 0;'
                % (v, v, v, v, v, v, v, v, v, v, v, v, v, k))
        bp = ('let %s = if %s < __l2_%s { __d_%s - 1 - %s } else { __b_%s - 1 - (%s - __l2_%s) }; %s = %s + %s;'
              % (pat, k, v, v, k, v, k, v, k, k, m.group(3)))
        return pre, 'while %s < __tot_%s' % (k, v), bp, 'R7 chain rev step_by(%s)' % m.group(3)
    # bare range
    rp = _range_parts(expr)
    if rp:
        a, b, incl = rp
        cmp_ = '<=' if incl else '<'
        return ('let mut %s: usize = %s; let %s: usize = %s;' % (it, a, end, b),
                'while %s %s %s' % (it, cmp_, end),
                'let %s = %s; %s = %s + 1;' % (pat, it, it, it),
                'K0 range%s' % ('=' if incl else ''))
    # slice-like iteration
    k = '__k_' + v
    m = re.fullmatch(r'(.+?)\.chunks_exact\((\w+)\)', expr, flags=re.S)
    if m and _simple_path(m.group(1)):
        s, n = m.group(1), m.group(2)
        return ('let mut %s: usize = 0;' % k, 'while %s + %s <= %s.len()' % (k, n, s),
                'let %s = &%s[%s..%s + %s]; %s = %s + %s;' % (pat, s, k, k, n, k, k, n), 'R6 chunks_exact(%s)' % n)
    m = re.fullmatch(r'(.+?)\.iter\(\)\.enumerate\(\)', expr, flags=re.S)
    if m and _simple_path(m.group(1)):
        s = m.group(1)
        mm = re.fullmatch(r'\(\s*(\w+)\s*,\s*(&?\s*\w+)\s*\)', pat)
        if not mm:
            raise Unsupported('enumerate pattern ' + pat)
        bp = 'let %s = %s; ' % (mm.group(1), k)
        if mm.group(2) != '_':
            bp += bind_elem(mm.group(2), '%s[%s]' % (s, k)) + ' '
        bp += '%s = %s + 1;' % (k, k)
        return 'let mut %s: usize = 0;' % k, 'while %s < %s.len()' % (k, s), bp, 'R3 iter enumerate'
    m = re.fullmatch(r'(.+?)\.iter\(\)(?:\.skip\((.+)\))?', expr, flags=re.S)
    if m and _simple_path(m.group(1)):
        s, start = m.group(1), (m.group(2) or '0')
        return ('let mut %s: usize = %s;' % (k, start), 'while %s < %s.len()' % (k, s),
                '%s %s = %s + 1;' % (bind_elem(pat, '%s[%s]' % (s, k)), k, k),
                'P1 slice iter' + (' skip' if m.group(2) else ''))
    m = re.fullmatch(r'&?\s*([A-Za-z_][\w.]*)\[\s*([^\[\]]*?)\s*\.\.\s*([^\[\]]*?)\s*\]', expr, flags=re.S)
    if m and _simple_path(m.group(1)):
        s_, a_, b_ = m.group(1), (m.group(2) or '0'), (m.group(3) or '%s.len()' % m.group(1))
        return ('let mut %s: usize = %s; let __end_%s: usize = %s;' % (k, a_, v, b_), 'while %s < __end_%s' % (k, v),
                '%s %s = %s + 1;' % (bind_elem(pat, '%s[%s]' % (s_, k)), k, k), 'P3 sub-slice S[A..B] by ref')
    if _simple_path(expr):
        if expr in arrays or pat.startswith('&') or pat.startswith('('):
            return ('let mut %s: usize = 0;' % k, 'while %s < %s.len()' % (k, expr),
                    '%s %s = %s + 1;' % (bind_elem(pat, '%s[%s]' % (expr, k)), k, k),
                    'R5 array by value' if expr in arrays else 'P1 slice by ref')
        return None  # user-defined iterator (BiRange): left native
    raise Unsupported('for-loop header: for %s in %s' % (pat, expr))


UNSUPPORTED_SITES = []


def rewrite_loops(src, log):
    del UNSUPPORTED_SITES[:]
    arrays = set(re.findall(r'\b(?:let|const)\s+(\w+)\s*(?::\s*\[[^=]*\])?\s*=\s*\[', mask(src)))
    pos = 0
    while True:
        msk = mask(src)
        m = re.compile(r'\bfor\s+((?:\([^)]*\))|(?:&?\s*\w+))\s+in\s+').search(msk, pos)
        if not m:
            return src
        # header expression runs to the `{` at depth 0
        k = m.end()
        depth = 0
        while not (msk[k] == '{' and depth == 0):
            if msk[k] in '([':
                depth += 1
            elif msk[k] in ')]':
                depth -= 1
            k += 1
        pat = src[m.start(1):m.end(1)]
        expr = src[m.end():k]
        try:
            rw = rewrite_for(pat, expr, arrays)
        except Unsupported as e:
            # leave the loop as it is; the enclosing function is reported as outside the supported subset
            log.append('UNSUPPORTED %s' % e)
            UNSUPPORTED_SITES.append((m.start(), str(e)))
            src = src[:m.start()] + '/*@unsupported*/' + src[m.start():]
            pos = k + len('/*@unsupported*/')
            continue
        if rw is None:
            log.append('native for: for %s in %s' % (pat.strip(), expr.strip()))
            pos = k
            continue
        pre, hdr, bp, rule = rw
        log.append('%s: for %s in %s' % (rule, pat.strip(), ' '.join(expr.split())))
        new = '%s\n%s /*@hdr*/ { %s /*@body*/' % (pre, hdr, bp)
        src = src[:m.start()] + new + src[k + 1:]
        pos = m.start() + len(new)


# ------------------------------------------------------- misc rewrites ------
def misc_rewrites(src, log):
    # A1 assert_eq!(A, B[, msg..]) -> assert!(A == B)
    while True:
        msk = mask(src)
        m = re.search(r'\bassert_eq!\(', msk)
        if not m:
            break
        o = m.end() - 1
        c = match_close(msk, o)
        parts = split_top(msk, o + 1, c, ',')
        a = src[parts[0][0]:parts[0][1]].strip()
        b = src[parts[1][0]:parts[1][1]].strip()
        src = src[:m.start()] + 'assert!(%s == %s)' % (a, b) + src[c + 1:]
        log.append('A1 assert_eq!(%s, %s)' % (a, b))
    # P2 array destructuring let
    while True:
        msk = mask(src)
        m = re.search(r'\blet\s+\[', msk)
        if not m:
            break
        o = m.end() - 1
        c = match_close(msk, o)
        eq = msk.index('=', c)
        semi = item_end(msk, eq) - 1
        pats = [src[s:e].strip() for s, e in split_top(msk, o + 1, c, ',')]
        rhs = src[eq + 1:semi].strip()
        t = '__arr%d' % m.start()
        new = 'let %s = %s; ' % (t, rhs) + ' '.join('let %s = %s[%d];' % (p, t, i) for i, p in enumerate(pats) if p)
        src = src[:m.start()] + new + src[semi + 1:]
        log.append('P2 array pattern let [%s]' % ', '.join(pats))
    # R9 filter(..).count()
    pat = re.compile(r'let\s+(\w+)\s*=\s*([^;]*?)\s*\.iter\(\)\s*\.filter\(\|(\w+)\|\s*([^;]*?)\)\s*\.count\(\);', re.S)
    while True:
        m = pat.search(src)
        if not m:
            break
        v, e, x, pred = m.group(1), ' '.join(m.group(2).split()), m.group(3), ' '.join(m.group(4).split())
        new = ('let __fs_%s = &%s; let mut %s: usize = 0; let mut __k_%s: usize = 0;\n'
               'while __k_%s < __fs_%s.len() /*@hdr*/ { let %s = &__fs_%s[__k_%s]; __k_%s = __k_%s + 1; /*@body*/ if %s { %s = %s + 1; } }'
               % (v, e, v, v, v, v, x, v, v, v, v, pred, v, v))
        src = src[:m.start()] + new + src[m.end():]
        log.append('R9 filter count: %s' % e)
    # L1 / M1 const items whose type holds slices with elided lifetimes:
    #   const N: [&[T]; K] = INIT;  ->  exec const N: [&'static [T]; K] /*@const N*/ { INIT }
    # (`exec` is a Verus mode keyword; the block form lets a contract attach `ensures` to the constant)
    while True:
        msk = mask(src)
        m = re.search(r'(?<!exec )\bconst\s+(\w+)\s*:\s*([^=]*?&\s*\[[^=]*?)\s*=', msk)
        if not m:
            break
        semi = item_end(msk, m.end()) - 1
        ty = src[m.start(2):m.end(2)].replace('&[', "&'static [")
        init = src[m.end():semi].strip()
        src = src[:m.start()] + "exec const %s: %s /*@const %s*/ { %s }" % (m.group(1), ty, m.group(1), init) + src[semi + 1:]
        log.append('L1/M1 const %s' % m.group(1))
    return src


# ------------------------------------------ H2: partial `From` impls ---------
def h2_twins(src, log):
    """`impl From<X> for T` whose `from` body can panic (`unreachable!`/`panic!`): vstd offers no
    precondition hook for trait methods, so the body is verified as a free-function twin
    `T__from_X` (same text, `Self` spelled out) that can carry `requires`; the trait impl itself is
    marked external and gets an assumed specification `pre ==> post` generated from the twin's
    contract; a ghost call `T__from_X__req(ARG)` (proves `pre(ARG)`) is put in front of every
    statement that calls `T::from(ARG)`."""
    twins = []
    msk = mask(src)
    for m in list(re.finditer(r'\bimpl\s+From<(\w+)>\s+for\s+(\w+)\s*\{', msk))[::-1]:
        bo = m.end() - 1
        bc = match_close(msk, bo)
        body = src[bo:bc + 1]
        if not re.search(r'\b(unreachable|panic|todo|unimplemented)!', mask(body)):
            continue
        x, t = m.group(1), m.group(2)
        fm = re.search(r'fn\s+from\s*\(\s*(\w+)\s*:\s*' + x + r'\s*\)\s*->\s*Self\s*\{', body)
        if not fm:
            raise Unsupported('H2: unusual From impl for %s' % t)
        fo = body.index('{', fm.start())
        fc = match_close(mask(body), fo)
        twin = '%s__from_%s' % (t, x)
        ftext = 'pub fn %s(%s: %s) -> %s %s' % (twin, fm.group(1), x, t, re.sub(r'^        ', '    ', re.sub(r'^    \}', '}', body[fo:fc + 1], flags=re.M), flags=re.M))
        ftext = re.sub(r'\bSelf\b', t, ftext)
        istart = item_start(src, m.start())
        src = src[:m.start()] + '#[verifier::external]\n' + src[m.start():bc + 1] + '\n\n' + ftext + '\n' + src[bc + 1:]
        twins.append({'type': t, 'arg_ty': x, 'param': fm.group(1), 'twin': twin})
        log.append('H2 twin %s for impl From<%s> for %s' % (twin, x, t))
    return src, twins


def h2_callsites(src, all_twins, log):
    """Insert the ghost precondition call in front of statements calling T::from(ARG)."""
    for tw in all_twins:
        pos = 0
        while True:
            msk = mask(src)
            m = re.compile(r'\b%s::from\(' % tw['type']).search(msk, pos)
            if not m:
                break
            o = m.end() - 1
            c = match_close(msk, o)
            arg = src[o + 1:c]
            # statement start: previous `;`, `{` or `}` at the same nesting level
            k = m.start() - 1
            depth = 0
            while k >= 0:
                ch = msk[k]
                if ch in ')]':
                    depth += 1
                elif ch in '([':
                    depth -= 1
                elif ch in ';{}' and depth <= 0:
                    break
                k -= 1
            ins = ' proof { %s__req(%s); } ' % (tw['twin'], arg.strip())
            src = src[:k + 1] + ins + src[k + 1:]
            log.append('H2 call-site guard for %s::from(%s)' % (tw['type'], ' '.join(arg.split())))
            pos = m.end() + len(ins)
    return src


def rename_self_named_params(src, log):
    """N1: a parameter with the same name as its function (`fn line(line: &[Module])`) breaks Verus's
    spec expansion once the function has requires/ensures; the parameter (not the function) is
    alpha-renamed to `<name>_p` throughout the signature and body."""
    while True:
        msk = mask(src)
        hit = None
        for name, kw, bo, bc in find_fns(src, msk):
            po = msk.index('(', kw)
            pc = match_close(msk, po)
            if re.search(r'(?<![\w.])%s\s*:' % re.escape(name), msk[po:pc]) and not re.search(r'\bself\b', msk[po:pc]):
                hit = (name, po, bc)
                break
        if not hit:
            return src
        name, po, bc = hit
        seg = src[po:bc + 1]
        mseg = msk[po:bc + 1]
        out = []
        last = 0
        for m in re.finditer(r'(?<![\w.])%s\b(?!\s*\()' % re.escape(name), mseg):
            out.append(seg[last:m.start()])
            out.append(name + '_p')
            last = m.end()
        out.append(seg[last:])
        src = src[:po] + ''.join(out) + src[bc + 1:]
        log.append('N1 parameter `%s` of fn %s renamed to %s_p' % (name, name, name))


def sep_blocks(src, log):
    """S1: a loop immediately followed by a bare `{ .. }` block statement confuses Verus's clause parser;
    put an empty statement `;` between them (no semantic content)."""
    pos = 0
    while True:
        msk = mask(src)
        m = re.compile(r'\bwhile\b').search(msk, pos)
        if not m:
            return src
        k = m.end()
        depth = 0
        while not (msk[k] == '{' and depth == 0):
            if msk[k] in '([':
                depth += 1
            elif msk[k] in ')]':
                depth -= 1
            k += 1
        c = match_close(msk, k)
        nxt = re.compile(r'\S').search(msk, c + 1)
        if nxt and msk[nxt.start()] == '{':
            src = src[:c + 1] + ';' + src[c + 1:]
            log.append('S1 empty statement between a loop and a following bare block')
        pos = m.end()


def extract_module(path, log):
    src = open(path).read()
    src = apply_drops(src, log)
    src = hoist_nested(src, log)
    src = misc_rewrites(src, log)
    src = fmt_rewrites(src, log)
    src = rewrite_loops(src, log)
    src = sep_blocks(src, log)
    src = rename_self_named_params(src, log)
    src, twins = h2_twins(src, log)
    # D1: derived Clone on a non-Copy struct: Verus's automatic specification says nothing about array
    # fields; the derive is made external and an assumed specification `r == *self` is generated.
    for m in list(re.finditer(r'#\[derive\(([^\)]*)\)\]\s*\n\s*pub struct (\w+)', src))[::-1]:
        traits = [t.strip() for t in m.group(1).split(',')]
        if 'Clone' in traits and 'Copy' not in traits:
            src = src[:m.start()] + '#[verifier::external_derive]\n' + src[m.start():]
            twins.append({'d1_type': m.group(2)})
            log.append('D1 external derive(Clone) on struct %s + assumed spec r == *self' % m.group(2))
    # functions containing a construct outside the supported subset
    if '/*@unsupported*/' in src:
        msk2 = mask(src)
        for name, kw, bo, bc in find_fns(src, msk2):
            if '/*@unsupported*/' in src[bo:bc]:
                twins.append({'unsupported_fn_pos': kw, 'why': [l for l in log if l.startswith('UNSUPPORTED')][-1]})
    return src, twins


if __name__ == '__main__':
    import sys
    lg = []
    print(extract_module(sys.argv[1], lg)[0])
    for l in lg:
        print('// ' + l, file=sys.stderr)
