"""Vacuity guard (thorough tier / dev): inject `assert(false)` at the entry of every verified function and at
the top of every loop body; each injected assertion must FAIL.  One that verifies means a contradictory
precondition/invariant (the function would prove anything)."""
import os, re, sys, json
HERE = os.path.dirname(os.path.abspath(__file__))
sys.path.insert(0, HERE)
import splice, vrun

def run():
    splice.VACUITY = True
    try:
        b = vrun.build()
    finally:
        splice.VACUITY = False
    res = vrun.run_verus(b['text'], extra_args=['--rlimit', '10'], tag='vacuity')
    lines = b['text'].split('\n')
    marks = {}
    for i, l in enumerate(lines, 1):
        m = re.search(r'/\*#VAC ([^*]+)\*/', l)
        if m:
            marks[i] = m.group(1)
    failed = set()
    for d in res['diags']:
        if d.get('level') == 'error' and d.get('message', '').startswith('assertion failed'):
            for s in d.get('spans', []):
                for ln in range(s['line_start'], s['line_end'] + 1):
                    if ln in marks:
                        failed.add(marks[ln])
    # a function that runs out of resources on the injected assertion did not derive `false` either (inconclusive,
    # but certainly no cheap contradiction): its sites are listed separately
    fails, tool = vrun.classify(res, b['text'], b['registry'])
    rl_fns = {t['fn'] for t in tool if t['fn'] and 'imit' in t['msg']}
    inconclusive = sorted(m for m in set(marks.values()) - failed if any(m.startswith(f) for f in rl_fns))
    vacuous = sorted(set(marks.values()) - failed - set(inconclusive))
    return {'injected': len(marks), 'refuted': len(failed), 'resource_limit_hit': inconclusive, 'not_refuted': vacuous}

if __name__ == '__main__':
    r = run()
    print(json.dumps(r, indent=1))
    sys.exit(0 if not r['not_refuted'] else 2)
