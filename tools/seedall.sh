#!/bin/bash
# regression over all seeded changes: which checks report what (development aid)
cd "$(dirname "$0")/.."
for d in seeded/*/; do s=$(basename $d); echo "== $s"; python3 tools/seedtest.py seeded/$s/patch.diff 2>&1 | grep -E "rc=1|rc=2|VIOL|UNDEC" | cut -c1-220 | head -14; done
