#!/bin/bash
# usage: confirm_seed.sh <worktree> <out-subdir (a|b)> <seed-id> <property>
# Confirms in the scratch worktree: demo passes on pristine, lib tests (174) pass with patch, demo fails with patch.
set -u
WT=$1; SUB=$2; ID=$3; PROP=$4
cd "$WT" || exit 9
git checkout -q -- src; mkdir -p tests
cp "out/$SUB/demo.rs" "tests/seed_demo.rs"
R0=$(cargo test --offline $FEATURES --test seed_demo 2>&1 | grep -E "^test result" | tail -1)
git apply "out/$SUB/patch.diff" || { echo "APPLY FAILED"; exit 8; }
RL=$(cargo test --lib --offline 2>&1 | grep -E "^test result" | tail -1)
R1=$(cargo test --offline $FEATURES --test seed_demo 2>&1 | grep -E "^test result" | tail -1)
git checkout -q -- src; rm -f tests/seed_demo.rs
echo "pristine demo: $R0"; echo "patched lib:   $RL"; echo "patched demo:  $R1"
case "$R0" in *"ok."*) ;; *) echo "NOT CONFIRMED (demo fails on pristine)"; exit 1;; esac
case "$RL" in *"174 passed; 0 failed"*) ;; *) echo "NOT CONFIRMED (lib tests)"; exit 1;; esac
case "$R1" in *"FAILED"*) ;; *) echo "NOT CONFIRMED (demo passes with patch)"; exit 1;; esac
D=/verif/seeded/$ID; mkdir -p "$D"
cp "out/$SUB/patch.diff" "$D/patch.diff"; cp "out/$SUB/demo.rs" "$D/demo.rs"; cp "out/$SUB/notes.txt" "$D/notes.txt"
python3 - "$D" "$ID" "$PROP" "$R0" "$RL" "$R1" <<'PY'
import json,sys
d,i,p,r0,rl,r1=sys.argv[1:7]
notes=open(d+'/notes.txt').read()
json.dump({'id':i,'property':p,'needs_to_manifest':notes[:1500],
 'confirmed':{'demo_on_pristine':r0,'lib_tests_with_patch':rl,'demo_with_patch':r1,
 'how':'scratch worktree of /repo: cargo test --offline $FEATURES --test seed_demo (pristine) ; git apply patch ; cargo test --lib --offline ; cargo test --offline $FEATURES --test seed_demo ; git checkout -- src'}},
 open(d+'/meta.json','w'),indent=1)
PY
echo "CONFIRMED -> $D"
