#!/bin/bash
# full regression (development aid): seeded changes, behaviour-preserving refactorings, mechanical mutants
cd "$(dirname "$0")/.."
export SEED_JOBS=${SEED_JOBS:-5}
python3 tools/setup.py | tail -3
echo "=== seeded"; python3 tools/seedall.py
echo "=== harmless"; python3 tools/harmless.py
echo "=== mutants"; python3 tools/mutants.py run
