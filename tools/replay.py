"""Search for a concrete failing input after a failed proof obligation (Verus gives no counterexample):
the bounded native oracle (tools/native.py) evaluates the property's clauses on its deterministic corpus
against the real code in the current tree.  Only decorates a report: the violation is decided by the failed
obligation; no input found => the VIOLATION line ends with no-failing-input-found."""
import native


def search(pid, violations, rep):
    if pid == 'C17':
        try:
            import native_c17
            r = native_c17.run()
        except Exception as e:
            rep['replay_search'] = 'native C17 harness unavailable: %r' % e
            return None
        rep['replay_search'] = {'cmd': r.get('cmd'), 'evaluations': r.get('evaluations'), 'failing_cases_found': len(r.get('failures') or [])}
        if r.get('ok') is False and r.get('failures'):
            f = r['failures'][0]
            return {'clause': f.split(' :: ')[0], 'observed': f.split(' :: ', 1)[1], 'more': r['failures'][1:5], 'reproduce_cmd': 'python3 /verif/tools/native_c17.py'}
        return None
    if pid == 'C18':
        return None
    try:
        r = native.sweep([pid], 'quick', 0)
    except native.NativeUnavailable as e:
        rep['replay_search'] = 'native oracle unavailable: %s' % e
        return None
    mine = [f for f in r['failures'] if f['property'] == pid]
    rep['replay_search'] = {'cmd': r['cmd'], 'bound': r['bound'], 'failing_cases_found': len(mine)}
    if not mine:
        return None
    f = mine[0]
    return {'case': f['case'], 'clause': f['check'], 'observed': f['detail'], 'reproduce_rust': native.rust_snippet(f['case']),
            'reproduce_cmd': 'python3 /verif/tools/check.py %s --replay <this file>' % pid, 'more': mine[1:5]}
