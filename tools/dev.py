"""Development aid (not a registered command): build + verus on one or more modules, print rendered errors."""
import sys, os, subprocess, time
sys.path.insert(0, os.path.dirname(os.path.abspath(__file__)))
import vrun
mods = [a for a in sys.argv[1:] if not a.startswith('-') and not a.isdigit()]
extra = [a for a in sys.argv[1:] if a.startswith('-') or a.isdigit()]
b = vrun.build()
os.makedirs(vrun.GEN_DIR, exist_ok=True)
gen = os.path.join(vrun.GEN_DIR, 'fastqr_dev.rs')
open(gen, 'w').write(b['text'])
cmd = ['verus', gen, '--triggers-mode', 'silent', '--multiple-errors', '10', '--num-threads', '16', '--time', '--rlimit', '60'] + extra
for m in mods:
    cmd += ['--verify-module', m]
t = time.time()
p = subprocess.run(cmd, capture_output=True, text=True)
err = '\n'.join(l for l in p.stderr.split('\n') if not l.startswith('[rust_verify'))
# drop warnings
out = []
skip = False
for blk in err.split('\n\n'):
    if blk.lstrip().startswith('warning'):
        continue
    out.append(blk)
print('\n\n'.join(out)[-12000:])
print(p.stdout[-1500:])
print('wall %.1fs' % (time.time() - t))
