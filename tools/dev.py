"""Development aid (not a registered command): build + verus on one or more modules, print rendered errors."""
import sys, os, subprocess, time
sys.path.insert(0, os.path.dirname(os.path.abspath(__file__)))
import vrun
mods = [a for a in sys.argv[1:] if not a.startswith('-')]
extra = [a for a in sys.argv[1:] if a.startswith('-')]
b = vrun.build()
os.makedirs(vrun.GEN_DIR, exist_ok=True)
gen = os.path.join(vrun.GEN_DIR, 'fastqr_dev.rs')
open(gen, 'w').write(b['text'])
cmd = ['verus', gen, '--triggers-mode', 'silent', '--multiple-errors', '10', '--num-threads', '16', '--time'] + extra
for m in mods:
    cmd += ['--verify-module', m]
t = time.time()
p = subprocess.run(cmd, capture_output=True, text=True)
err = p.stderr
# drop warnings
out = []
skip = False
for blk in err.split('\n\n'):
    if blk.lstrip().startswith('warning') or blk.lstrip().startswith('[rust_verify'):
        continue
    out.append(blk)
print('\n\n'.join(out)[-12000:])
print(p.stdout[-1500:])
print('wall %.1fs' % (time.time() - t))
