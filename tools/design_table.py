"""Development aid: regenerate the seed table of DESIGN.md section 4 from seeded/RESULTS.md (+ meta.json / notes.txt / patch.diff).
usage: design_table.py [RESULTS.md path]  -> replaces the table between the markers in DESIGN.md"""
import json, os, re, sys
VERIF = os.path.dirname(os.path.dirname(os.path.abspath(__file__)))
res = sys.argv[1] if len(sys.argv) > 1 else os.path.join(VERIF, 'seeded', 'RESULTS.md')
rows = []
for l in open(res):
    c = [x.strip() for x in l.strip().strip('|').split('|')]
    if len(c) < 7 or c[0] in ('seed', '---') or set(c[0]) <= set('-'):
        continue
    sid, target, result, viol, ex2, bnd = c[0], c[1], c[2], c[3], c[4], c[5]
    d = os.path.join(VERIF, 'seeded', sid)
    files = sorted(set(re.findall(r'^\+\+\+ b/src/(\S+)', open(os.path.join(d, 'patch.diff')).read(), flags=re.M)))
    notes = ''
    try:
        for ln in open(os.path.join(d, 'notes.txt')):
            ln = ln.strip()
            if len(ln) > 25 and not re.match(r'^(C\d\d|=+|-+|Change [AB]\b)', ln):
                notes = ln
                break
    except Exception:
        pass
    rows.append('| %s | %s | %s | %s | %s | %s | %s |' % (sid, target, ', '.join(files), notes[:110].replace('|', '/'), result + (' (exit 2: %s)' % ex2 if ex2 else ''), viol.replace('(no-input)', '(no-input)'), bnd))
table = '| seed | target | file(s) | what the notes say (truncated) | target check | all VIOLATIONs (with/without input) | exit 0 by bounded stand-in |\n|---|---|---|---|---|---|---|\n' + '\n'.join(rows) + '\n'
p = os.path.join(VERIF, 'DESIGN.md')
s = open(p).read()
a = s.index('| seed | target | file(s) |')
b = s.index('\n---------------------------------------------------------------------------', a)
open(p, 'w').write(s[:a] + table + s[b:])
n_c = sum(1 for r in rows if '| CAUGHT' in r)
print(len(rows), 'rows,', n_c, 'caught')
