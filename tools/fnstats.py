"""dev aid: rlimit/time of the most expensive functions in the last full run (after ./check)"""
import json,glob,os,sys
p=max(glob.glob('/verif/.cache/*.json'),key=os.path.getmtime)
r=json.load(open(p))
rows=[]
for m in r['out']['times-ms']['smt']['smt-run-module-times']:
    for f in m.get('function-breakdown',[]):
        rows.append((f['rlimit'],f['time'],f['function'].split('::',1)[1],f['success']))
rows.sort(reverse=True)
for x in rows[:int(sys.argv[1]) if len(sys.argv)>1 else 12]: print(x)
