"""C18: Kani, loop-free harness over the full finite domain (40 sizes x 3 shapes) of SvgBuilder::image_placement.
The harness module is appended to a SCRATCH copy of /repo (outside /repo and /verif, removed afterwards)."""
import os, re, shutil, subprocess, sys, tempfile, time, json
HERE = os.path.dirname(os.path.abspath(__file__))
VERIF = os.path.dirname(HERE)
REPO = os.environ.get('VERIF_REPO', '/repo')

def run(timeout=1500):
    # the harness only reaches src/convert/*.rs (image_placement and the types it uses): result cached on their content
    import hashlib, glob
    h = hashlib.sha256()
    for f in sorted(glob.glob(os.path.join(REPO, 'src', 'convert', '*.rs'))) + [os.path.join(VERIF, 'kani', 'c18_harness.rs'), os.path.join(VERIF, 'kani', 'c18_replay.rs')]:
        h.update(open(f, 'rb').read())
    cpath = os.path.join(VERIF, '.cache', 'kani-c18-%s.json' % h.hexdigest()[:20])
    if os.path.exists(cpath) and not os.environ.get('VERIF_NOCACHE'):
        r = json.load(open(cpath)); r['cached'] = True
        return r
    r = _run(timeout)
    if r.get('summary'):
        os.makedirs(os.path.dirname(cpath), exist_ok=True)
        json.dump(r, open(cpath, 'w'))
    return r


def _run(timeout=1500):
    scratch = tempfile.mkdtemp(prefix='verif_kani_c18_')
    t0 = time.time()
    try:
        for item in ('src', 'Cargo.toml', 'Cargo.lock', 'benches', 'examples'):
            s = os.path.join(REPO, item)
            if os.path.isdir(s):
                shutil.copytree(s, os.path.join(scratch, item))
            elif os.path.exists(s):
                shutil.copy(s, os.path.join(scratch, item))
        svg = os.path.join(scratch, 'src', 'convert', 'svg.rs')
        with open(svg, 'a') as f:
            f.write(open(os.path.join(VERIF, 'kani', 'c18_harness.rs')).read())
        env = dict(os.environ, CARGO_NET_OFFLINE='true')
        cmd = ['cargo', 'kani', '--features', 'svg', '--harness', 'c18_default_frame_table', '--output-format', 'terse']
        p = subprocess.run(cmd, cwd=scratch, capture_output=True, text=True, env=env, timeout=timeout)
        out = p.stdout + '\n' + p.stderr
        ok = 'VERIFICATION:- SUCCESSFUL' in out
        failed = re.findall(r'Failed Checks: ([^\n]*)', out)
        checks = re.search(r'\*\* (\d+) of (\d+) failed', out)
        replay = []
        if not ok:
            with open(svg, 'a') as f:
                f.write(open(os.path.join(VERIF, 'kani', 'c18_replay.rs')).read())
            q = subprocess.run(['cargo', 'test', '--offline', '--features', 'svg', '--lib', 'verif_replay_c18', '--', '--nocapture'],
                               cwd=scratch, capture_output=True, text=True, env=env, timeout=timeout)
            replay = [l for l in (q.stdout + q.stderr).split('\n') if l.startswith('REPLAY-FAIL')]
        return {'ok': ok, 'replay': replay[:40], 'rc': p.returncode, 'failed_checks': failed, 'summary': checks.group(0) if checks else None,
                'cmd': ' '.join(cmd), 'wall_s': round(time.time() - t0, 1), 'tail': out[-3000:]}
    finally:
        shutil.rmtree(scratch, ignore_errors=True)

if __name__ == '__main__':
    r = run()
    print(json.dumps({k: v for k, v in r.items() if k != 'tail'}, indent=1))
    if not r['ok']:
        print(r['tail'])
