"""Development aid: verify the whole generated crate under several SMT seeds; list functions that fail
under any seed (fragile proofs -> candidates for restructuring)."""
import sys, os, json
sys.path.insert(0, os.path.dirname(os.path.abspath(__file__)))
import vrun
n = int(sys.argv[1]) if len(sys.argv) > 1 else 4
b = vrun.build()
bad = {}
for s in range(1, n + 1):
    res = vrun.run_verus(b['text'], extra_args=['--smt-option', 'smt.random_seed=%d' % s], tag='stab')
    fails, tool = vrun.classify(res, b['text'], b['registry'])
    for f in fails:
        bad.setdefault(f['fn'], []).append((s, f['msg'][:60]))
    for t in tool:
        bad.setdefault(t['fn'], []).append((s, 'TOOL ' + t['msg'][:60]))
    print('seed', s, 'wall %.0fs' % res['wall_s'], 'failures', len(fails), 'tool', len(tool), flush=True)
print(json.dumps(bad, indent=1))
