"""Authoring-time: record the hash of every extracted function body of the current /repo tree as the baseline
(contracts/baseline_bodies.json).  Used only to tell whether a clause-less safety obligation belongs to a
function that was edited since the contracts were written."""
import json, os, sys
sys.path.insert(0, os.path.dirname(os.path.abspath(__file__)))
import vrun
b = vrun.build()
json.dump(b['bodies'], open(os.path.join(vrun.VERIF, 'contracts', 'baseline_bodies.json'), 'w'), indent=0, sort_keys=True)
print(len(b['bodies']), 'function bodies recorded')
