"""Development aid: run the claimed checks against a scratch copy of /repo with a seeded patch applied.
usage: seedtest.py <patch.diff> [Cxx ...]"""
import os, shutil, subprocess, sys, json
HERE = os.path.dirname(os.path.abspath(__file__))
sys.path.insert(0, HERE)
import props
patch = os.path.abspath(sys.argv[1])
ids = sys.argv[2:] or sorted(props.PROPS)
scratch = '/tmp/seedtest_%d' % os.getpid()
shutil.rmtree(scratch, ignore_errors=True)
os.makedirs(scratch)
shutil.copytree('/repo/src', scratch + '/src')
for item in ('Cargo.toml', 'Cargo.lock', 'benches', 'examples'):
    p_ = os.path.join('/repo', item)
    if os.path.isdir(p_):
        shutil.copytree(p_, os.path.join(scratch, item))
    elif os.path.exists(p_):
        shutil.copy(p_, os.path.join(scratch, item))
r = subprocess.run(['patch', '-p1', '-s', '-d', scratch, '-i', patch], capture_output=True, text=True)
if r.returncode != 0:
    print('patch failed', r.stdout, r.stderr); sys.exit(3)
env = dict(os.environ, VERIF_REPO=scratch, VERIF_EVIDENCE_DIR=scratch + '/evidence')
res = {}
# ground truth on the corpus of the bounded native oracle (which properties have a concrete failing input)
truth = None
try:
    os.environ['VERIF_REPO'] = scratch
    import native
    native.REPO = scratch
    nr = native.sweep(native.PROPS, 'quick', 0, repo=scratch)
    truth = nr['summary'].get('per_property', {})
    print('NATIVE-TRUTH', json.dumps(truth))
except Exception as e:
    print('NATIVE-TRUTH unavailable', e)
for pid in ids:
    p = subprocess.run([os.path.join(os.path.dirname(HERE), 'check'), pid], capture_output=True, text=True, env=env)
    lines = [l for l in p.stdout.split('\n') if l.startswith(('VIOLATION', 'FAILED-OBLIGATION', 'UNDECIDED', 'OK', 'KNOWN', 'BOUNDED'))]
    res[pid] = (p.returncode, lines)
    note = ''
    if truth is not None and pid in native.PROPS:
        t = truth.get(pid, 0) > 0
        note = {(1, True): 'confirmed by input', (1, False): 'NO failing input in corpus (subtle or FALSE ALARM?)', (0, True): 'MISSED (native has failing input)', (0, False): ''}.get((p.returncode, t), '')
    print(pid, 'rc=%d' % p.returncode, note)
    lines.sort(key=lambda l: 0 if l.startswith(('VIOLATION', 'BOUNDED', 'OK')) else 1)
    for l in lines[:6]:
        print('   ', l[:230])
shutil.rmtree(scratch, ignore_errors=True)
import hashlib
for pre in ('crate-', 'target-'):
    shutil.rmtree(os.path.join(os.path.dirname(HERE), '.cache', 'native', pre + hashlib.sha1(scratch.encode()).hexdigest()[:10]), ignore_errors=True)
