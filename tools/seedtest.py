"""Development aid: run the claimed checks against a scratch copy of /repo with a seeded patch applied.
usage: seedtest.py <patch.diff> [Cxx ...]"""
import os, shutil, subprocess, sys, json
HERE = os.path.dirname(os.path.abspath(__file__))
sys.path.insert(0, HERE)
import props
patch = os.path.abspath(sys.argv[1])
ids = sys.argv[2:] or sorted(props.PROPS)
scratch = '/tmp/seedtest_%d' % os.getpid()
shutil.rmtree(scratch, ignore_errors=True)
os.makedirs(scratch)
shutil.copytree('/repo/src', scratch + '/src')
for item in ('Cargo.toml', 'Cargo.lock', 'benches', 'examples'):
    p_ = os.path.join('/repo', item)
    if os.path.isdir(p_):
        shutil.copytree(p_, os.path.join(scratch, item))
    elif os.path.exists(p_):
        shutil.copy(p_, os.path.join(scratch, item))
r = subprocess.run(['patch', '-p1', '-s', '-d', scratch, '-i', patch], capture_output=True, text=True)
if r.returncode != 0:
    print('patch failed', r.stdout, r.stderr); sys.exit(3)
env = dict(os.environ, VERIF_REPO=scratch, VERIF_EVIDENCE_DIR=scratch + '/evidence')
res = {}
for pid in ids:
    p = subprocess.run([os.path.join(os.path.dirname(HERE), 'check'), pid], capture_output=True, text=True, env=env)
    lines = [l for l in p.stdout.split('\n') if l.startswith(('VIOLATION', 'FAILED-OBLIGATION', 'UNDECIDED', 'OK', 'KNOWN'))]
    res[pid] = (p.returncode, lines)
    print(pid, 'rc=%d' % p.returncode)
    for l in lines[:6]:
        print('   ', l[:230])
shutil.rmtree(scratch, ignore_errors=True)
