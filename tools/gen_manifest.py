"""Writes MANIFEST.json from tools/props.py (claimed properties) + NA table."""
import json, os, sys
sys.path.insert(0, os.path.dirname(os.path.abspath(__file__)))
import props
VERIF = os.path.dirname(os.path.dirname(os.path.abspath(__file__)))
allp = [json.loads(l)['id'] for l in open(os.path.join(VERIF, 'properties.jsonl'))]
checks = []
for pid in allp:
    if pid not in props.PROPS:
        continue
    meta = props.MANIFEST_META[pid]
    checks.append({
        'property_id': pid,
        'quick_cmd': './check %s --tier quick' % pid,
        'thorough_cmd': './check %s --tier thorough' % pid,
        'evidence_file': '/verif/evidence/%s.json' % pid,
        'replay_cmd_template': './check %s --replay {path}' % pid,
        'engine': 'verus-contracts',
        'level_claimed': {'category': meta.get('category', 'proof'), 'text': meta['text'], 'design_ref': meta.get('design_ref', 'DESIGN.md section 3')},
        'level_note': meta['note'],
        'technique': meta.get('technique', 'contract-based deductive verification (Verus) of the functions extracted from /repo/src on every run'),
    })
na = [{'property_id': p, 'reason': props.NOT_APPLICABLE[p]} for p in allp if p not in props.PROPS]
man = {
    'version': 1,
    'setup_cmd': 'python3 tools/setup.py',
    'hooks': {'guard': 'none (no hooks: contracts live in /verif sidecar files and are spliced into a generated copy of the sources on every run)',
              'enable': 'n/a - checks read /repo/src directly; replay probes are appended to scratch copies outside /repo',
              'baseline_off_cmd': 'cd /repo && cargo test --workspace --no-fail-fast --offline',
              'source_commits': [], 'add_only': True},
    'engines': [{'name': 'verus-contracts', 'path': '/verif/tools', 'serves_properties': sorted(props.PROPS),
                 'kind_free_text': 'extract (tools/extract.py) + splice contracts (contracts/*.ctr, spec/*.vrs) + Verus 0.2026.09.13; attribution of failed obligations to properties by clause tags'},
                {'name': 'native-bounded-oracle', 'path': '/verif/native', 'serves_properties': ['C01', 'C02', 'C03', 'C04', 'C05', 'C06', 'C07', 'C08', 'C09', 'C10', 'C11', 'C14', 'C15', 'C16', 'C17'],
                 'kind_free_text': 'NOT the deciding technique: plain-Rust transcription of the ISO model (native/src/iso.rs) evaluated through the public API on a deterministic corpus; used (1) as the labelled bounded stand-in when the deductive check of a property is undecided in the current tree, (2) to attach a concrete failing input to a failed obligation, (3) to arbitrate which property a failed multi-property clause belongs to, (4) as extra exploration in the thorough tier; native/c17_harness.rs is the bounded stand-in for the str/SVG clauses of C17'}],
    'checks': checks,
    'not_applicable': na,
    'notes': 'OK-BOUNDED (exit 0) marks a run in which part of the cone was decided by the bounded stand-in only. exit 2 from a check means UNDECIDED (tool limit with no bounded stand-in available), never a violation. A line BOUNDED property=... with exit 0 means: the deductive check could not decide part of the cone in this tree and the bounded native oracle found no failing case (evidence level exploration for that run). See DESIGN.md.',
}
json.dump(man, open(os.path.join(VERIF, 'MANIFEST.json'), 'w'), indent=1)
print('claimed', [c['property_id'] for c in checks], 'n/a', len(na))
