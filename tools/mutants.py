"""Development aid: mechanical small mutants (operator / constant / boundary) of the build-path sources.
 phase 1 (gen):  generate candidates, keep those that compile and pass the 174 unit tests -> mutants/<id>.diff
 phase 2 (run):  seedtest-style run of every check on each kept mutant, with native ground truth -> mutants/RESULTS.md
usage: mutants.py gen <n_candidates> <seed> | mutants.py run [ids...]"""
import os, random, re, shutil, subprocess, sys, json, hashlib
HERE = os.path.dirname(os.path.abspath(__file__))
VERIF = os.path.dirname(HERE)
sys.path.insert(0, HERE)
import rustlex
FILES = os.environ.get('MUT_FILES', '').split(',') if os.environ.get('MUT_FILES') else ['compact.rs', 'encode.rs', 'polynomials.rs', 'default.rs', 'datamasking.rs', 'placement.rs', 'score.rs', 'qr.rs', 'version.rs', 'hardcode.rs', 'module.rs']
OUT = os.path.join(VERIF, 'mutants')
REPL = [(r' <= ', ' < '), (r' < ', ' <= '), (r' >= ', ' > '), (r' > ', ' >= '), (r' == ', ' != '), (r' != ', ' == '),
        (r' \+ ', ' - '), (r' - ', ' + '), (r' && ', ' || '), (r' \|\| ', ' && '), (r' \+= ', ' -= '), (r' % 2\b', ' % 3'), (r' % 3\b', ' % 2'),
        (r'\.\.=', '..'), (r' << ', ' >> '), (r' >> ', ' << '), (r' \| ', ' & '), (r' & ', ' | ')]

def sites(path):
    src = open(path).read()
    msk = rustlex.mask(src)
    # skip #[cfg(test)] modules at the end of files
    cut = msk.find('#[cfg(test)]')
    lim = cut if cut > 0 else len(msk)
    out = []
    for pat, rep in REPL:
        for m in re.finditer(pat, msk[:lim]):
            out.append((m.start(), m.end(), rep, 'op'))
    for m in re.finditer(r'(?<![\w.])(\d{1,3})(?![\w.])', msk[:lim]):
        # integer literals outside big tables: only on lines with fewer than 6 literals
        ls = msk.rfind('\n', 0, m.start()) + 1
        le = msk.find('\n', m.end())
        if len(re.findall(r'\b\d+\b', msk[ls:le])) <= 5 and not msk[ls:le].lstrip().startswith('#'):
            v = int(m.group(1))
            out.append((m.start(), m.end(), str(v + 1), 'const'))
            if v > 0:
                out.append((m.start(), m.end(), str(v - 1), 'const'))
    return src, out

def gen(n, seed):
    rnd = random.Random(seed)
    os.makedirs(OUT, exist_ok=True)
    sc = '/tmp/mut_scratch'
    shutil.rmtree(sc, ignore_errors=True)
    os.makedirs(sc)
    for item in ('src', 'Cargo.toml', 'Cargo.lock', 'benches', 'examples'):
        s = os.path.join('/repo', item)
        (shutil.copytree if os.path.isdir(s) else shutil.copy)(s, os.path.join(sc, item))
    env = dict(os.environ, CARGO_TARGET_DIR='/tmp/mut_target', CARGO_NET_OFFLINE='true')
    subprocess.run(['cargo', 'test', '--lib', '--offline', '--no-run'], cwd=sc, env=env, capture_output=True)
    cands = []
    for f in FILES:
        src, ss = sites(os.path.join('/repo/src', f))
        cands += [(f, s) for s in ss]
    # stratified: the same number of candidates per file (the tables would otherwise dominate)
    byf = {}
    for c in cands:
        byf.setdefault(c[0], []).append(c)
    per = max(1, n // len(byf))
    cands = []
    for f in sorted(byf):
        rnd.shuffle(byf[f])
        cands += byf[f][:per]
    n = len(cands)
    kept = 0
    stats = {'candidates': 0, 'compile_error': 0, 'killed_by_tests': 0, 'kept': 0}
    for f, (a, b, rep, kind) in cands[:n]:
        stats['candidates'] += 1
        p = os.path.join(sc, 'src', f)
        orig = open(os.path.join('/repo/src', f)).read()
        open(p, 'w').write(orig[:a] + rep + orig[b:])
        r = subprocess.run(['cargo', 'test', '--lib', '--offline'], cwd=sc, env=env, capture_output=True, text=True)
        out = r.stdout + r.stderr
        if 'error' in out and 'test result' not in out:
            stats['compile_error'] += 1
        elif '174 passed; 0 failed' not in out:
            stats['killed_by_tests'] += 1
        else:
            d = subprocess.run(['diff', '-u', os.path.join('/repo/src', f), p], capture_output=True, text=True).stdout
            d = d.replace('--- /repo/src/' + f, '--- a/src/' + f).replace('+++ ' + p, '+++ b/src/' + f)
            mid = 'M%s-%s' % (f[:3], hashlib.sha1(d.encode()).hexdigest()[:6])
            open(os.path.join(OUT, mid + '.diff'), 'w').write(d)
            stats['kept'] += 1
        open(p, 'w').write(orig)
    shutil.rmtree(sc, ignore_errors=True)
    shutil.rmtree('/tmp/mut_target', ignore_errors=True)
    print(json.dumps(stats))

def run(ids):
    partial = bool(ids)
    ids = ids or sorted(f[:-5] for f in os.listdir(OUT) if f.endswith('.diff'))
    from concurrent.futures import ThreadPoolExecutor
    def one(s):
        return s, subprocess.run([sys.executable, os.path.join(HERE, 'seedtest.py'), os.path.join(OUT, s + '.diff')], capture_output=True, text=True)
    rows = []
    for s, p in ThreadPoolExecutor(int(os.environ.get('SEED_JOBS', '4'))).map(one, ids):
        truth, res, how = {}, {}, {}
        cur = None
        for l in p.stdout.split('\n'):
            m = re.match(r'NATIVE-TRUTH (\{.*\})', l)
            if m:
                truth = json.loads(m.group(1))
            m = re.match(r'(C\d\d) rc=(\d)', l)
            if m:
                cur = m.group(1); res[cur] = int(m.group(2)); how[cur] = 'proof'
            if cur and 'BOUNDED' in l: how[cur] = 'bounded'
            if cur and l.strip().startswith('VIOLATION'): how[cur] = 'no-input' if 'no-failing-input-found' in l else 'input'
        viol = sorted(k for k, v in res.items() if v == 1)
        tr = sorted(k for k, v in truth.items() if v)
        change = [l for l in open(os.path.join(OUT, s + '.diff')).read().split('\n') if l.startswith(('-', '+')) and not l.startswith(('---', '+++'))]
        verdict = 'DETECTED' if viol else ('MISSED (native oracle has a failing input)' if tr else 'no alarm (equivalent or undetected)')
        line = '| %s | %s | %s | %s | %s | %s | `%s` |' % (s, verdict, ' '.join('%s(%s)' % (k, how[k]) for k in viol), ' '.join(sorted(k for k, v in res.items() if v == 2)), ' '.join(sorted(k for k, v in res.items() if v == 0 and how[k] == 'bounded')), ' '.join(tr), ' / '.join(c.strip()[:70] for c in change[:2]).replace('|', '¦'))
        print(line, flush=True)
        rows.append(line)
    open(os.path.join(OUT, 'RESULTS-partial.md' if partial else 'RESULTS.md'), 'w').write('| mutant | verdict | VIOLATION (how) | exit 2 | bounded pass | native oracle fails for | change |\n|---|---|---|---|---|---|---|\n' + '\n'.join(rows) + '\n')

if __name__ == '__main__':
    if sys.argv[1] == 'gen':
        gen(int(sys.argv[2]), int(sys.argv[3]))
    else:
        run(sys.argv[2:])
