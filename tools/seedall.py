"""Regression over all seeded changes (development aid): which checks report what, against the ground truth of
the bounded native oracle.  Writes seeded/RESULTS.md.  usage: seedall.py [seed-id ...]"""
import os, re, subprocess, sys, json
HERE = os.path.dirname(os.path.abspath(__file__))
VERIF = os.path.dirname(HERE)
ids = sys.argv[1:] or sorted(d for d in os.listdir(os.path.join(VERIF, 'seeded')) if os.path.isdir(os.path.join(VERIF, 'seeded', d)))
rows = []
from concurrent.futures import ThreadPoolExecutor
def one(s):
    return s, subprocess.run([sys.executable, os.path.join(HERE, 'seedtest.py'), os.path.join(VERIF, 'seeded', s, 'patch.diff')], capture_output=True, text=True)
jobs = int(os.environ.get('SEED_JOBS', '4'))
for s, p in ThreadPoolExecutor(jobs).map(one, ids):
    truth, res, why = {}, {}, {}
    cur = None
    for l in p.stdout.split('\n'):
        m = re.match(r'NATIVE-TRUTH (\{.*\})', l)
        if m:
            truth = json.loads(m.group(1))
        m = re.match(r'(C\d\d) rc=(\d)', l)
        if m:
            cur = m.group(1); res[cur] = int(m.group(2)); why[cur] = ''
        elif cur and l.startswith('    ') and not why[cur]:
            if 'BOUNDED' in l: why[cur] = 'bounded'
            elif 'UNDECIDED' in l: why[cur] = 'undecided-by-proof'
        if cur and 'BOUNDED' in l: why[cur] = 'bounded'
        if cur and l.strip().startswith('VIOLATION'): why[cur] = 'no-input' if 'no-failing-input-found' in l else 'input'
    target = json.load(open(os.path.join(VERIF, 'seeded', s, 'meta.json')))['property']
    viol = sorted(k for k, v in res.items() if v == 1)
    und = sorted(k for k, v in res.items() if v == 2)
    bnd = sorted(k for k, v in res.items() if v == 0 and why.get(k) == 'bounded')
    tr = sorted(k for k, v in truth.items() if v)
    extra = [k for k in viol if k != target and k not in tr]
    line = '| %s | %s | %s | %s | %s | %s | %s |' % (s, target, 'CAUGHT' if target in viol else ('undecided' if target in und else 'MISSED'),
            ' '.join('%s(%s)' % (k, why[k]) for k in viol), ' '.join(und), ' '.join(bnd), ' '.join(tr))
    if extra:
        line += ' unconfirmed-extra: ' + ' '.join(extra)
    print(line, flush=True)
    rows.append(line)
open(os.path.join(VERIF, 'seeded', 'RESULTS.md' if not sys.argv[1:] else 'RESULTS-partial.md'), 'w').write('| seed | target | result | VIOLATION (how) | exit 2 | bounded pass | native oracle finds failing input for |\n|---|---|---|---|---|---|---|\n' + '\n'.join(rows) + '\n')
