"""setup_cmd: offline sanity of the framework (no build step is needed: stdlib Python + verus on PATH)."""
import os, subprocess, sys, shutil
HERE = os.path.dirname(os.path.abspath(__file__))
ok = True
for tool in ('verus', 'python3'):
    if not shutil.which(tool):
        print('missing tool', tool); ok = False
for d in ('gen', '.cache', 'evidence', 'replays'):
    os.makedirs(os.path.join(os.path.dirname(HERE), d), exist_ok=True)
r = subprocess.run([sys.executable, os.path.join(HERE, 'gen_iso_tables.py'), '--check'], capture_output=True, text=True)
print(r.stdout.strip())
if r.returncode != 0:
    ok = False
r = subprocess.run([sys.executable, os.path.join(HERE, 'model_facts.py')], capture_output=True, text=True)
print(r.stdout.strip()[-300:])
if r.returncode != 0:
    print('model facts checker failed (checks that need it will report UNDECIDED)')
# pre-build the bounded native oracle (path dependency on the repository; nothing is written into /repo)
try:
    sys.path.insert(0, HERE)
    import native
    print('native oracle:', native.build())
    sc = native.selfcheck()
    import json
    json.dump(sc, open(os.path.join(native.ROOT, 'selfcheck.json'), 'w'))
    print('native oracle self-check against qrcode 0.12:', sc['result'])
except Exception as e:
    print('native oracle not built (bounded stand-in / replay search unavailable):', str(e)[:200])
sys.exit(0 if ok else 1)
