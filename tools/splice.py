"""Contract sidecar parsing (.ctr) and splicing into extracted module text.

.ctr grammar (line oriented; directives start with `@` in column 0..n):

  @fn <module>::<Type>::<name> | <module>::<name> | <module>::<Type>::<Trait<..>>::<name>
  @tags C05 C10          default property tags of every obligation of this fn
  @ret r                 name the return value  ( -> (r: T) )
  @rlimit 50             #[verifier::rlimit(50)]
  @attr #[verifier::spinoff_prover]
  @assumed <reason>      body NOT verified: #[verifier::external_body]; listed in evidence
  @requires [tags]       paragraphs (blank-line separated) = clauses
  @ensures [tags]
  @decreases             (recursive fns) single expression
  @loop K                K = textual ordinal of the loop inside the fn (after normalisation)
  @invariant [tags]      paragraphs = clauses
  @invariant_except_break [tags]
  @loop_ensures [tags]
  @decreases             inside @loop: the loop measure
  @at <anchor>           raw ghost text inserted at the anchor:
                           fn_start | fn_end | loopK.before | loopK.body_start |
                           loopK.body_end | loopK.after | after "<text>" | before "<text>"
  # comment line (only outside clause text)

No executable token is ever modified: only insertions, all of them ghost
(`requires/ensures/invariant/decreases` clauses, `proof {}` blocks, `assert`,
`let ghost`) plus verifier attributes.
"""
import re
from rustlex import mask, match_close


VACUITY = False


class ContractError(Exception):
    pass


class LostAnchor(Exception):
    pass


class Clause:
    def __init__(self, kind, tags, text, fn, idx, loop=None):
        self.kind, self.tags, self.text, self.fn, self.idx, self.loop = kind, tags, text, fn, idx, loop
        self.explicit = False   # True when the clause carries its own [tags] (not the function's default tags)

    @property
    def oid(self):
        lp = '' if self.loop is None else ('loop%d.' % self.loop if isinstance(self.loop, int) else 'const_%s.' % self.loop)
        return '%s#%s%s.%d[%s]' % (self.fn, lp, self.kind, self.idx, ','.join(self.tags))


class FnContract:
    def __init__(self, name):
        self.name = name
        self.tags = []
        self.ret = None
        self.rlimit = None
        self.attrs = []
        self.assumed = None
        self.requires = []
        self.ensures = []
        self.decreases = None
        self.loops = {}   # k -> dict(invariant=[], invariant_except_break=[], ensures=[], decreases=None)
        self.ats = []     # (anchor, text)
        self.consts = {}  # inner const name -> [Clause]
        self.closures = []  # (body_text, ret_decl, ensures_text)
        self.iters = {}   # loop ordinal -> ghost iterator name of a native for loop
        self.src = None


def _paragraphs(lines):
    paras, cur = [], []
    for l in lines:
        if l.strip() == '':
            if cur:
                paras.append('\n'.join(cur))
                cur = []
        else:
            cur.append(l.rstrip())
    if cur:
        paras.append('\n'.join(cur))
    return paras


def split_conjuncts(text):
    """Split an invariant paragraph into its top-level `&&` conjuncts (each becomes a clause of its own, so that a
    failure names the conjunct that failed).  Not split: clauses with a top-level `==>`, `<==`, `||`, `&&&`, a
    closure or a quantifier outside parentheses (their precedence is looser than `&&`)."""
    t = text.strip().rstrip(',')
    depth = 0
    parts, last, i, n = [], 0, 0, len(t)
    while i < n:
        ch = t[i]
        if ch in '([{':
            depth += 1
        elif ch in ')]}':
            depth -= 1
        elif depth == 0:
            two = t[i:i + 2]
            three = t[i:i + 3]
            if three in ('==>', '<==', '&&&', '|||') or two == '||' or ch == '|' or re.match(r'(forall|exists|choose)\b', t[i:]) and (i == 0 or not (t[i - 1].isalnum() or t[i - 1] == '_')):
                return [text]
            if two == '&&':
                parts.append(t[last:i].strip())
                last = i + 2
                i += 2
                continue
        i += 1
    parts.append(t[last:].strip())
    parts = [p_ for p_ in parts if p_]
    return parts if len(parts) > 1 else [text]


def parse_ctr(text, fname='<ctr>'):
    contracts = []
    cur = None
    section = None   # (kind, tags, loop)
    buf = []
    cur_loop = None
    cur_const = None

    def flush():
        nonlocal buf, section
        if section is None:
            buf = []
            return
        kind, tags, loop = section
        if kind == 'at':
            cur.ats.append((tags, '\n'.join(buf).strip('\n')))
        elif kind == 'decreases':
            val = ' '.join(' '.join(buf).split())
            if loop is None:
                cur.decreases = val
            else:
                cur.loops[loop]['decreases'] = val
        else:
            paras = _paragraphs(buf)
            if isinstance(loop, str):
                tgt = cur.consts[loop]
            else:
                tgt = {'requires': cur.requires, 'ensures': cur.ensures}.get(kind) if loop is None else cur.loops[loop][kind]
            if kind in ('invariant', 'invariant_except_break') and loop is not None and not isinstance(loop, str):
                paras = [c_ for p_ in paras for c_ in split_conjuncts(p_)]
            for p in paras:
                t = tags if tags else cur.tags
                cl_ = Clause(kind if loop is None else kind, t, p.rstrip().rstrip(','), cur.name, len(tgt), loop)
                cl_.explicit = bool(tags)
                tgt.append(cl_)
        buf = []
        section = None

    for ln, line in enumerate(text.split('\n'), 1):
        s = line.strip()
        if s.startswith('@'):
            if cur is not None:
                flush()
            m = re.match(r'@(\w+)\s*(.*)', s)
            d, rest = m.group(1), m.group(2).strip()
            if d == 'fn':
                cur = FnContract(rest)
                cur.src = '%s:%d' % (fname, ln)
                contracts.append(cur)
                cur_loop = None
                continue
            if cur is None:
                raise ContractError('%s:%d directive before @fn' % (fname, ln))
            tags = []
            tm = re.match(r'\[([^\]]*)\]\s*(.*)', rest)
            if tm and d in ('requires', 'ensures', 'invariant', 'invariant_except_break', 'loop_ensures', 'const_ensures'):
                tags = [t for t in re.split(r'[,\s]+', tm.group(1)) if t]
                rest = tm.group(2)
            if d == 'tags':
                cur.tags = rest.split()
            elif d == 'ret':
                cur.ret = rest
            elif d == 'rlimit':
                cur.rlimit = int(rest)
            elif d == 'attr':
                cur.attrs.append(rest)
            elif d == 'assumed':
                cur.assumed = rest or 'no reason given'
            elif d == 'iter':
                k_, nm_ = rest.split()
                cur.iters[int(k_)] = nm_
            elif d == 'closure':
                mm = re.match(r'"(.*)"\s+\((\w+:\s*[^)]+)\)\s+(.*)', rest)
                if not mm:
                    raise ContractError('%s:%d bad @closure' % (fname, ln))
                cur.closures.append((mm.group(1), mm.group(2), mm.group(3)))
            elif d == 'const':
                cur_const = rest
                cur.consts.setdefault(rest, [])
            elif d == 'const_ensures':
                section = ('const_ensures', tags, cur_const)
                if rest:
                    buf.append(rest)
            elif d in ('requires', 'ensures'):
                section = (d, tags, None)
                cur_loop = None
                if rest:
                    buf.append(rest)
            elif d == 'loop':
                cur_loop = int(rest)
                cur.loops.setdefault(cur_loop, {'invariant': [], 'invariant_except_break': [], 'loop_ensures': [], 'decreases': None})
            elif d in ('invariant', 'invariant_except_break', 'loop_ensures'):
                if cur_loop is None:
                    raise ContractError('%s:%d @%s outside @loop' % (fname, ln, d))
                section = (d, tags, cur_loop)
                if rest:
                    buf.append(rest)
            elif d == 'decreases':
                section = ('decreases', [], cur_loop)
                if rest:
                    buf.append(rest)
            elif d == 'at':
                tm2 = re.match(r'\[([^\]]*)\]\s*(.*)', rest)
                if tm2:   # `@at [C01 C06] <anchor>`: proof text serving only these properties
                    section = ('at', ([t for t in re.split(r'[,\s]+', tm2.group(1)) if t], tm2.group(2)), None)
                else:
                    section = ('at', rest, None)
            else:
                raise ContractError('%s:%d unknown directive @%s' % (fname, ln, d))
        elif s.startswith('#') and section is None:
            continue
        else:
            buf.append(line)
    if cur is not None:
        flush()
    return contracts


# ------------------------------------------------------------------ locate --
def index_functions(src):
    """Map qualified (module-relative) fn names to (fn_kw, sig_end(body `{`), body_close).
    Names: `name`, `Type::name`, `Type::Trait<..>::name`."""
    msk = mask(src)
    impls = []
    for m in re.finditer(r'\bimpl\b', msk):
        # `impl` blocks only (item position); `impl Trait` in a type position is not an item
        prev = msk[:m.start()].rstrip()
        if prev and prev[-1] not in '};]{' and not prev.endswith('unsafe') and not prev.endswith('default'):
            continue
        k = m.end()
        depth = 0
        while k < len(msk) and not (msk[k] == '{' and depth == 0):
            if msk[k] in '([':
                depth += 1
            elif msk[k] in ')]':
                depth -= 1
            k += 1
        if k >= len(msk):
            continue
        hdr = ' '.join(src[m.end():k].split())
        hdr = re.sub(r'^<[^>]*>\s*', '', hdr)
        if ' for ' in hdr:
            tr, ty = hdr.split(' for ', 1)
            prefix = '%s::%s' % (ty.strip(), tr.strip().replace(' ', ''))
        else:
            prefix = hdr.strip()
        impls.append((k, match_close(msk, k), prefix))
    out = {}
    for m in re.finditer(r'\bfn\s+(\w+)', msk):
        k = m.end()
        depth = 0
        body = None
        n = len(msk)
        while k < n:
            ch = msk[k]
            if ch in '([':
                depth += 1
            elif ch in ')]':
                depth -= 1
            elif ch == ';' and depth == 0:
                break
            elif ch == '{' and depth == 0:
                body = k
                break
            k += 1
        if body is None:
            continue
        name = m.group(1)
        encl = [p for (a, b, p) in impls if a < m.start() < b]
        q = (encl[-1] + '::' + name) if encl else name
        if q in out:
            q = q + '@%d' % m.start()
        out[q] = (m.start(), body, match_close(msk, body))
    return out, msk


def find_loops(msk, body_open, body_close):
    """Loops in textual order: list of (kw_pos, hdr_end(pos of `{`), close)."""
    loops = []
    for m in re.finditer(r'\b(while|for|loop)\b', msk[body_open:body_close]):
        kw = body_open + m.start()
        # `for` in `impl .. for` cannot appear inside a fn body; closures `for<'a>` not used
        k = kw + len(m.group(1))
        depth = 0
        while not (msk[k] == '{' and depth == 0):
            if msk[k] in '([':
                depth += 1
            elif msk[k] in ')]':
                depth -= 1
            k += 1
        loops.append((kw, k, match_close(msk, k)))
    return loops


def splice_module(modname, src, contracts, registry):
    """contracts: list[FnContract] for this module (names relative to module).
    registry: list that receives (marker_id, Clause|None, fnname, kind) for attribution.
    Returns new text."""
    fns, msk = index_functions(src)
    ins = []  # (pos, order, text)
    order = [0]

    def add(pos, text):
        order[0] += 1
        ins.append((pos, order[0], '\x01' + text + '\x02'))

    lost = []
    for c in contracts:
        rel = c.name.split('::', 1)[1]
        if rel not in fns:
            lost.append((c, 'function %s not found in extracted module %s' % (c.name, modname)))
            continue
        mark = len(ins)
        try:
            _splice_one(c, rel, fns, src, msk, add, registry)
        except LostAnchor as e:
            # proof text could not be placed: keep the contract, leave the body unverified (reported as UNDECIDED
            # for the properties of this function only)
            del ins[mark:]
            lost.append((c, str(e)))
            c.assumed = 'LOST ANCHOR: %s' % e
            c.lost = True
            _splice_one(c, rel, fns, src, msk, add, registry)
    out = src
    for pos, _, text in sorted(ins, key=lambda t: (t[0], t[1]), reverse=True):
        out = out[:pos] + text + out[pos:]
    return out, lost


def _splice_one(c, rel, fns, src, msk, add, registry):
    if True:
        kw, bo, bc = fns[rel]
        # attributes
        line_start = src.rfind('\n', 0, kw) + 1
        attrs = list(c.attrs)
        if c.rlimit and not VACUITY:   # the vacuity run only needs 'false is not derivable cheaply'
            attrs.append('#[verifier::rlimit(%d)]' % c.rlimit)
        if getattr(c, 'fully_external', False):
            attrs.append('#[verifier::external]')   # even the signature is outside the verifier's reach (external type)
        elif c.assumed:
            attrs.append('#[verifier::external_body]')
        if attrs:
            add(line_start, ''.join(a + '\n' for a in attrs))
        # return naming
        sig = msk[kw:bo]
        if c.ret:
            am = None
            depth = 0
            for i, ch in enumerate(sig):
                if ch in '([':
                    depth += 1
                elif ch in ')]':
                    depth -= 1
                elif ch == '-' and sig[i + 1] == '>' and depth == 0:
                    am = i
                    break
            if am is None:
                raise ContractError('%s: @ret on fn without return type' % c.name)
            ty_s = kw + am + 2
            ty_e = bo
            wm = re.search(r'\bwhere\b', msk[ty_s:bo])
            if wm:
                ty_e = ty_s + wm.start()
            ty = src[ty_s:ty_e].strip()
            # insertion-only: open paren+name before the type, close after
            first = ty_s + (len(src[ty_s:ty_e]) - len(src[ty_s:ty_e].lstrip()))
            last = ty_s + len(src[ty_s:ty_e].rstrip())
            add(first, '(%s: ' % c.ret)
            add(last, ')')
        # fn-level clauses
        spec = []
        for kind, lst in (('requires', c.requires), ('ensures', c.ensures)):
            if lst:
                spec.append('\n    %s' % kind)
                for cl in lst:
                    registry.append(cl)
                    spec.append('\n/*#OB %s*/ %s,' % (cl.oid, cl.text))
        if c.decreases:
            spec.append('\n    decreases %s,' % c.decreases)
        if spec:
            add(bo, ''.join(spec) + '\n/*#END*/ ')
        if c.assumed:
            return  # body is not verified: no loop/anchor splicing
        loops = find_loops(msk, bo, bc)
        if VACUITY:
            add(bo + 1, '\nproof { assert(false); } /*#VAC %s#fn_start*/\n' % c.name)
            for k_, (lkw_, lhe_, lcl_) in enumerate(loops):
                bm_ = src.find('/*@body*/', lhe_, lcl_)
                pos_ = bm_ + len('/*@body*/') if (bm_ >= 0 and src[lhe_ - 9:lhe_].strip().endswith('/*@hdr*/')) else lhe_ + 1
                add(pos_, '\nproof { assert(false); } /*#VAC %s#loop%d*/\n' % (c.name, k_))
        for k_, nm_ in c.iters.items():
            if k_ >= len(loops):
                raise LostAnchor('%s: loop %d not found' % (c.name, k_))
            lkw_, lhe_, lcl_ = loops[k_]
            mm_ = re.match(r'for\s+[^{]*?\bin\s+', msk[lkw_:lhe_])
            if not mm_:
                raise LostAnchor('%s: loop %d is not a native for loop' % (c.name, k_))
            add(lkw_ + mm_.end(), '%s: ' % nm_)
        for k, lp in c.loops.items():
            if k >= len(loops):
                raise LostAnchor('%s: loop %d not found (fn has %d loops)' % (c.name, k, len(loops)))
            lkw, lhe, lcl = loops[k]
            parts = []
            for kind, word in (('invariant_except_break', 'invariant_except_break'), ('invariant', 'invariant'), ('loop_ensures', 'ensures')):
                if lp[kind]:
                    parts.append('\n    %s' % word)
                    for cl in lp[kind]:
                        registry.append(cl)
                        parts.append('\n/*#OB %s*/ %s,' % (cl.oid, cl.text))
            if lp['decreases']:
                parts.append('\n    decreases %s,' % lp['decreases'])
            if parts:
                add(lhe, ''.join(parts) + '\n/*#END*/ ')
        for body_text, ret_decl, ens in c.closures:
            body = src[bo:bc]
            if body.count(body_text) != 1:
                raise LostAnchor('%s: closure body %r occurs %d times' % (c.name, body_text, body.count(body_text)))
            p0 = bo + body.index(body_text)
            if not re.search(r'\|\s*$', src[bo:p0]):
                raise LostAnchor('%s: %r is not a closure body' % (c.name, body_text))
            cl = Clause('closure_ensures', c.tags, ens, c.name, len(registry))
            registry.append(cl)
            add(p0, ' -> (%s)\n    ensures\n/*#OB %s*/ %s,\n/*#END*/ { ' % (ret_decl, cl.oid, ens))
            add(p0 + len(body_text), ' }')
        for cname, cls in c.consts.items():
            mk = '/*@const %s*/' % cname
            p0 = src.find(mk, bo, bc)
            if p0 < 0:
                raise LostAnchor('%s: inner const %s not found' % (c.name, cname))
            parts = ['\n    ensures']
            for cl in cls:
                registry.append(cl)
                parts.append('\n/*#OB %s*/ %s,' % (cl.oid, cl.text))
            add(p0 + len(mk), ''.join(parts) + '\n/*#END*/ ')
        for at_idx, (anchor, text) in enumerate(c.ats):
            check_ghost_only(c.name, text)
            # contract-authored proof text is an obligation of its own (its assertions existed on the unchanged tree)
            at_tags = None
            if isinstance(anchor, tuple):
                at_tags, anchor = anchor
            cl_at = Clause('at', at_tags or c.tags, anchor, c.name, at_idx)
            cl_at.explicit = bool(at_tags)
            registry.append(cl_at)
            text = '\n/*#OB %s*/\n' % cl_at.oid + text + '\n/*#END*/\n'
            m = re.fullmatch(r'loop(\d+)\.(before|body_start|body_end|after)', anchor)
            mc = re.fullmatch(r'const:(\w+)', anchor)
            if mc:
                mk = '/*@const %s*/' % mc.group(1)
                p0 = src.find(mk, bo, bc)
                if p0 < 0:
                    raise LostAnchor('%s: inner const %s not found' % (c.name, mc.group(1)))
                add(src.index('{', p0) + 1, text)
            elif anchor == 'fn_start':
                add(bo + 1, text)
            elif anchor == 'fn_end':
                add(bc, text)
            elif m:
                k = int(m.group(1))
                if k >= len(loops):
                    raise LostAnchor('%s: loop %d not found' % (c.name, k))
                lkw, lhe, lcl = loops[k]
                where = m.group(2)
                if where == 'before':
                    # before the generated prelude if any: start of the line holding the prelude
                    ls = src.rfind('\n', 0, lkw) + 1
                    prev_ls = src.rfind('\n', 0, ls - 1) + 1
                    if re.match(r'\s*let (mut )?__', src[prev_ls:ls]) or src[prev_ls:ls].lstrip().startswith('let __'):
                        add(prev_ls, text)
                    else:
                        add(ls if src[ls:lkw].strip() == '' else lkw, text)
                elif where == 'body_start':
                    bm = src.find('/*@body*/', lhe, lcl)
                    nxt = src.find('/*@hdr*/', lhe + 1, lcl)
                    if bm >= 0 and (nxt < 0 or bm < nxt) and src[lhe - 9:lhe].strip().endswith('/*@hdr*/'):
                        add(bm + len('/*@body*/'), text)
                    else:
                        add(lhe + 1, text)
                elif where == 'body_end':
                    add(lcl, text)
                else:
                    add(lcl + 1, text)
            else:
                m2 = re.fullmatch(r'(after|before)\s+"(.*)"', anchor, flags=re.S)
                if not m2:
                    raise ContractError('%s: bad anchor %r' % (c.name, anchor))
                needle = m2.group(2)
                body = src[bo:bc]
                cnt = body.count(needle)
                if cnt != 1:
                    raise LostAnchor('%s: anchor text %r occurs %d times' % (c.name, needle, cnt))
                p = bo + body.index(needle)
                add(p + len(needle) if m2.group(1) == 'after' else p, text)


def check_ghost_only(fn, text):
    """@at text may contain only `proof { .. }` blocks, `let ghost ..;`, `assert..;`"""
    t = text
    while True:
        msk = mask(t)
        m = re.search(r'\bproof\s*\{', msk)
        if not m:
            break
        c = match_close(msk, m.end() - 1)
        t = t[:m.start()] + t[c + 1:]
    while True:
        msk = mask(t)
        m = re.search(r'\b(let\s+ghost|let\s+tracked|assert)\b', msk)
        if not m:
            break
        k = m.end()
        depth = 0
        while k < len(msk) and not (msk[k] == ';' and depth == 0):
            if msk[k] in '([{':
                depth += 1
            elif msk[k] in ')]}':
                depth -= 1
            k += 1
        t = t[:m.start()] + t[k + 1:]
    rest = re.sub(r'//[^\n]*', '', t).strip()
    if rest:
        raise ContractError('%s: @at text contains non-ghost code: %r' % (fn, rest[:80]))


def unsentinel(spliced, original):
    """Insertion-only check: removing every inserted chunk gives back the extracted text."""
    stripped = re.sub('\x01[^\x02]*\x02', '', spliced)
    ok = stripped == original
    return spliced.replace('\x01', '').replace('\x02', ''), ok
