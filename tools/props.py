"""Property table: which properties are claimed, and the static parts of the evidence."""
import re

# property id -> short description of the cone (the tags on contract clauses decide membership)
PROPS = {
    'C05': 'smallest sufficient version; over-capacity is an error',
    'C06': 'data codewords follow the ISO bit stream',
    'C08': 'masking applies exactly the ISO pattern, only to the encoding region',
    'C09': 'automatic mode is the most compact mode',
    'C14': 'building is a pure function of input and options',
    'C03': 'function patterns and geometry',
    'C04': 'format/version information and reported parameters',
    'C11': 'automatic mask minimises the documented penalty',
    'C15': 'module type labels match ISO regions',
    'C07': 'EC codewords are the GF(256) polynomial remainder',
    'C02': 'block layout, interleaving, RS codewords',
    'C18': 'embedded-image default frame geometry',
    'C17': 'WASM entry points: option plumbing never traps',
    'C01': 'every symbol is the ISO symbol of its input (encoder side of decode round-trip)',
    'C10': 'building is total: no panic, overflow, out-of-bounds, non-termination',
    'C16': 'terminal rendering encodes the matrix with a one-module light border',
}


# properties whose proofs use the external_body lemmas axiom_zigzag_total / axiom_data_rows_total
NEEDS_MODEL_FACTS = {'C01', 'C10', 'C15'}


def is_structural_text(text):
    """True for clauses that only relate counters, lengths and constants (no quantifier, no spec-function call)."""
    t = re.sub(r'\b(len|old|final|spec_index|view|index)\s*\(', '(', text)
    if re.search(r'\b(forall|exists)\b', t):
        return False
    if re.search(r'\b[A-Za-z_][A-Za-z_0-9:]*\s*\(', t):
        return False
    return True


def fn_default_tags(contracts, fn):
    for c in contracts:
        if c.name == fn:
            return c.tags
    return None


def scan_assumptions(text):
    """Mechanical scan of the generated file for everything that is assumed rather than proved."""
    out = []
    for m in re.finditer(r'assume_specification\s*(?:<[^>]*>\s*)?\[\s*([^\]]+?)\s*\]', text):
        out.append('assume_specification: %s' % ' '.join(m.group(1).split()))
    for kw in ('external_body', 'verifier::external]', 'admit()', 'assume(', 'verifier::exec_allows_no_decreases_clause', 'external_fn_specification'):
        n = len(re.findall(re.escape(kw), text))
        if n:
            out.append('%s: %d occurrence(s) in generated file' % (kw, n))
    return out


def trusted_base(b):
    return [
        'Verus 0.2026.09.13 + its bundled Z3; rustc 1.98.1 semantics as encoded by Verus; vstd specifications of Vec/slice/array/Option',
        'global size_of usize == 8 (64-bit targets only)',
        'extraction rules (tools/extract.py; every applied rule is listed in coverage.extraction_log)',
        'ISO model in /verif/spec/iso_*.vrs (tables transcribed from qrcode-0.12.0 / ISO 18004 Table 9, Annex E; BCH and geometry from first principles)',
        'model facts axiom_zigzag_total / axiom_data_rows_total (external_body lemmas in the main run): established by the VERIFIED EXECUTABLE checker spec/checker_model_facts.vrs, compiled and run by tools/model_facts.py (stamp keyed by the hash of all spec/iso*.vrs); trusted: Verus --compile and the host toolchain',
    ] + scan_assumptions(b['text'])


def assumptions(b, pid):
    a = [
        'machine arithmetic is NOT treated as mathematical: all fixed-width operations are checked for overflow by Verus',
        'wasm32 variant of KEEP_LAST and 32-bit usize are not covered',
        'loop normalisation rules (R*/K0/P1) are the documented semantics of core::iter adapters on Range<usize>/slices',
    ]
    for c in b['contracts']:
        if c.assumed:
            a.append('ASSUMED (not proved) contract of %s: %s' % (c.name, c.assumed))
    for m, lg in sorted(b.get('logs', {}).items()):
        for l in lg:
            if l.startswith('F1 '):
                a.append('ASSUMED (extraction rule F1, module %s): %s' % (m, l))
            if l.startswith('IO1 '):
                a.append('NOT VERIFIED (module %s): %s' % (m, l))
    if pid == 'C16':
        a.append('ASSUMED: vstd specifications of String::new / String::push / String::push_str over the view Seq<char>; assume_specification String::with_capacity(n)@ == empty')
    return a

MANIFEST_META = {
    'C05': {
        'text': 'Verus proves, for every usize length, every mode and level, that the real Version::get returns the smallest version whose ISO capacity (4 + count bits + payload bits <= 8 x data codewords; capacity from ISO Table 9 independently of the crate) holds the input and None exactly when version 40 does not; that QRCode::new / QRBuilder::build use a forced version iff it is at least that large and otherwise return exactly the two documented errors; that add_terminator never subtracts below zero (its precondition len <= data_bits is discharged at the call site from the capacity condition).',
        'note': 'Trusted: Verus/Z3, extraction rules, the ISO model. No assumed contract on the build path.',
    },
    'C06': {
        'text': 'Verus proves that encode::encode returns a buffer whose first iso_data_codewords(v,l) bytes are, bit for bit, the ISO 7.4 stream (mode indicator, count of the prescribed width, 3-digit/2-char/8-bit packing, terminator min(4,room), zero fill to the byte boundary, 0xEC/0x11 alternation) for every input accepted by the mode, every version and level; CompactQR is verified against an abstract bit-sequence view with the invariant that bits past len are zero.',
        'note': 'All of compact.rs and encode.rs is proved (push_bits via bit-vector lemmas on mixed usize/u8 shifts). Trusted: Verus/Z3, extraction rules (R2 descending stepped range in push_bits, R4 in fill, R6 chunks_exact), the ISO model.',
    },
    'C08': {
        'text': 'Verus proves for each of the real mask functions 0,1,2,3,4,7 and the dispatcher that, for every matrix size up to 177 and every matrix content, exactly the Data-typed modules selected by ISO Table 10 pattern k toggle their value bit and nothing else (types, other modules, meta fields, array tail) changes; the offset tables of patterns 5 and 6 are proved to be exactly the ISO residues.',
        'note': 'All eight patterns incl. the shared 6-periodic sweep of patterns 5/6 are proved; place_on_matrix is proved to apply and report the same mask it writes into the format word.',
    },
    'C09': {
        'text': 'Verus proves best_encoding(input) == Numeric iff all bytes are digits (incl. empty), Alphanumeric iff all are in the 45-character set (written out from ISO Table 5) and not all digits, Byte otherwise, for slices of any length; ascii_to_alphanumeric/ascii_to_digit are proved total on the chosen mode (their panic arms are unreachable) and QRCode::new uses forced.unwrap_or(best).',
        'note': 'Trusted: Verus/Z3, extraction rules (P1 slice loops, H1 hoisting of the two nested fns).',
    },
    'C03': {
        'text': 'Verus proves that default::create_matrix(v) returns, for each of the 40 versions, a matrix of side 17+4v whose every module equals the ISO blank symbol (finder patterns with separators, timing, Annex E alignment patterns - incl. the lemma that no used centre overlaps a finder -, dark module, version information bits) and that every later stage (format info, masking) changes only what its contract allows; the array tail outside the square is an invariant (tail_default in QRCode::wf).',
        'note': 'No assumed contract. Alignment tables come from the qrcode-0.12 transcription of Annex E.',
    },
    'C04': {
        'text': 'Verus proves ecm_to_format_information == BCH(15,5)(level,mask) xor 0x5412 and Version::information == BCH(18,6)(version) against GF(2) polynomial division specs for all 32/34 words; that create_matrix_format_info / create_matrix_version_info put bit k at the ISO coordinates (both copies) and nothing else changes; that place_on_matrix writes the format word of the same mask it applies and reports; that QRCode::new reports level (default Q), mode, version, size truthfully.',
        'note': 'No assumed contract on the path.',
    },
    'C11': {
        'text': 'Verus proves the selection loop of place_on_matrix: with no mask forced the emitted mask k minimises cand_penalty(placed, k) = documented penalty (declarative spec: runs, 1011101 windows, 2x2 blocks, dark ratio) of pattern k applied to the placed matrix, over all 8 patterns; a forced mask overrides. The call-site obligation that columns are scored on the transpose of the very candidate is where the stale-transpose defect of the original code was found (fixed: see known_findings.txt).',
        'note': 'score.rs (line, squares, dark ratio incl. the 100-entry table, sums) is proved equal to the declarative penalty; the candidate is the placed matrix with format cells still reserved, as the crate documents.',
    },
    'C15': {
        'text': 'Same obligations as C03 restricted to labels: for every version and coordinate the label produced by create_matrix is iso_region(v,y,x), and placement/masking/format stages are proved not to change any label.',
        'note': 'The count identity #Data == 8*total+remainder rests on the verified executable checker (model fact, see trusted_base).',
    },
    'C07': {
        'text': 'Verus proves that polynomials::division returns, for every block content and every generator handed to it in exponent form, the state of schoolbook long division of data(x)*x^ec by g(x) over GF(2^8)/0x11D (multiplication defined by shift-and-add, not by tables), including the skip of zero leading coefficients; that the crate LOG/ANTILOG tables are alpha^i / the discrete logarithm (each of the 512 entries checked against the recursive definition); that the log/antilog product equals field multiplication (bit-vector lemma + induction); and that get_polynomial(v,l) is, coefficient by coefficient, the product polynomial (x-alpha^0)...(x-alpha^(ec-1)) of exactly the degree ISO Table 9 prescribes for all 160 (version, level) pairs.',
        'note': 'The code is proved equal to the long-division state (operational), and that this IS the remainder is MECHANISED in spec/iso_uniq.vrs: a polynomial of degree < m vanishing at m distinct points is zero (factor theorem by synthetic division, no zero divisors, alpha^0..alpha^254 pairwise distinct), hence the emitted codewords are the only ec coefficients that make the block vanish at alpha^0..alpha^(ec-1) (lemma_remainder_unique), and for ANY quotient q and any r of ec coefficients with data*x^ec == q*g + r (poly_mul, evaluation is multiplicative) r is the emitted sequence (lemma_remainder_is_the_remainder; non-vacuity witness lemma_remainder_witness). Not mechanised: existence of such a quotient for every data (the textbook division theorem; the emitted sequence is characterised without it). Table 9 degrees come from the qrcode-0.12 transcription.',
    },
    'C02': {
        'text': 'Verus proves that ecc_to_groups, data_codewords, max_bytes, missing_bits equal ISO Table 9 / the geometry formula for all 160 cells (with the consistency lemma blocks x sizes + blocks x ec = total), and that polynomials::structure lays out, for every data content, data codeword p of block b at the ISO interleaved position, EC codeword j of block b (the proved division remainder of that block) at dc + j*blocks + b, and zeros beyond the total (hence zero remainder bits before masking); all index arithmetic is proved in bounds; and, as a theorem about the model, that every block of that sequence has all-zero syndromes at alpha^0..alpha^(ec-1).',
        'note': 'All-zero syndromes are MECHANISED (spec/iso_synd.vrs, spec/iso_blocks_synd.vrs): field laws of GF(256) from the bit-level definition of the product, Horner evaluation, alpha^0..alpha^(ec-1) are roots of the generator, the long division keeps the value at every root and clears the positions it visits, hence every block codeword read from the ISO final sequence evaluates to zero at alpha^i, i < ec (lemma_block_syndromes). The step from zero syndromes to "up to floor(ec/2) corrupted codewords per block are correctable" (minimum distance ec+1 of the RS code, existence of a decoder) is standard coding theory and is NOT mechanised. No assumed contract on the path.',
    },
    'C18': {
        'text': 'Kani proves, with a loop-free harness over the complete finite domain (40 sizes x 3 frame shapes, symbolic), that SvgBuilder::image_placement yields a frame whose side is an odd whole number of modules >= 5, below 40% of the symbol side, at least 8 modules clear of every edge (finder + separator), with n - side even (so the centred frame lies on module boundaries), non-decreasing in the version, and an image side that is a whole number between 1 and the frame side. BOUNDED stand-in for SvgBuilder::image() (centring, parity adjustment, explicit size/gap/position), a function interleaving f64 arithmetic with string formatting on which neither Verus nor Kani can take a contract: the native harness renders every version x shape x margin 0..16 with default placement (2040 cases, exhaustive for the defaults) and 800/4000 sampled real-valued overrides through the public API and reads the frame <rect> and the <image> element back from the SVG text (centred, module-aligned, < 40%, clear of finders, monotone, image inside and centred, requested size/gap/position honoured with at most one module of alignment adjustment).',
        'note': 'PROOF for the default-placement table (complete finite domain), BOUNDED (labelled, never counted as proved) for everything inside SvgBuilder::image().',
        'technique': 'Kani loop-free harness over kani::any() on the real function (appended harness module in a scratch copy) + bounded native harness for the string-building function',
    },
    'C17': {
        'text': 'Verus verifies the real src/wasm.rs (extracted like any other module): SvgOptions::new establishes, and every setter preserves for ANY argument, the representation invariant (three colour vectors of length 4, size/position vectors of length 0 or 2); under that invariant qr_svg is proved free of index panics and of the Invalid-color-length panic of the builder, and qr()/bool_to_u8 return size*size bytes; qr and qr_svg call the same QRCode::new as the native builder with mode and mask unset. BOUNDED stand-in for the clauses no contract reaches (colour-string parsing in color_to_code: str bytes; SVG text equality: format!/String): the real wasm.rs is compiled natively in a scratch copy and native/c17_harness.rs runs ~70 000 colour strings (all strings of up to 4 tokens over hex digits, other letters, signs, blanks, NUL, multi-byte characters) through the three colour setters and qr_svg, position arrays of length 0..4 with/without size and image, and compares qr()/qr_svg() with the native builders over 7 contents x 6 shapes x 3 margins x levels/versions/colours/image settings. Two genuine defects were found and fixed (qr_svg image_position guard: Verus bounds obligation; colour setters panicking on malformed strings: bounded harness).',
        'note': 'PARTIAL PROOF + BOUNDED. color_to_code keeps an ASSUMED contract in the Verus run (never panics, any Vec<u8>), checked only by the bounded harness; crate::convert is represented by a hand-written stub of signatures (spec/stub_convert.vrs) in the Verus run, and SVG equality with the native builder is decided only on the bounded harness corpus.',
        'technique': 'Verus function contracts on the extracted wasm.rs + bounded native harness (labelled bounded) for str/SVG clauses',
    },
    'C01': {
        'text': 'Verus proves, function by function and for every input/option combination, that QRBuilder::build returning Ok(q) implies iso_symbol_ok(q, input, level, mode, version): the data codewords are the ISO 7.4 stream (encode), the final codeword sequence is the ISO block split / GF(256) remainders / interleaving of them (structure, division), every encoding-region module holds the stream bit of its ISO zig-zag rank and every other module is the blank symbol (place_on_matrix_data, default::create_matrix), and the returned matrix is that placed matrix with the format word of (level, mask) written and exactly that mask applied (place_on_matrix). Each stage is used only through its contract.',
        'note': 'This is the ENCODER side. The decoder side - the reference reading procedure applied to an ISO symbol returns the input (mask involution, rank is a bijection, de-interleave, segment parsing) - is a statement about the ISO model only and is NOT mechanised. Model facts on module counts come from the verified executable checker (see trusted_base).',
    },
    'C10': {
        'text': 'Every function reachable from QRBuilder::build (12 source files, all bodies verified, none assumed) is proved by Verus free of integer overflow/underflow, out-of-range indexing and slicing, failing unwrap, reachable panic!/unreachable!/assert!/debug assertions (the two debug_assert blocks are kept as must-hold assertions), and every loop and recursion has a proved decreases measure; the only preconditions at the entry point are those the property itself names (a forced mode must accept the input).',
        'note': 'usize is fixed to 64 bits. Loop headers are normalised by documented rules (see extraction_log). color_to_code in wasm.rs is not on the build path (C17).',
    },
    'C16': {
        'text': 'Verus proves on the real helpers::print_line / print_matrix_with_margin / QRCode::to_str that, for every well-formed matrix of any of the 40 sizes and any content, the returned String (vstd view: Seq<char>) is exactly term_render(q): (size+1)/2+1 lines of size+2 characters separated by line feeds, the character at line k, column c being the glyph (space / lower half / upper half / full block; ink = light) of half rows 2k and 2k+1 of the bordered picture, where half row r >= 1, column c is module (r-2, c-1) inside the symbol and light outside (one-module border on all four sides) and half row 0 is the un-inked spare half of the first line. The indexed reading of the statement (line count, width, alphabet, in-place decoding, line feeds) is derived from that definition by model lemmas (lemma_term_render_decodes). All loops carry invariants and decreases; indexing of the rows is proved in bounds.',
        'note': 'ASSUMED contracts: vstd specifications of String::new/push/push_str, an assume_specification for String::with_capacity (empty string), and extraction rule F1: format!("{X}\\n") with X a char constant is replaced by a generated external_body helper whose assumed postcondition is "the result is exactly the characters X, line feed" (Display of a char writes that char). QRCode::print (println!) is dropped (terminal I/O). Bounded native clause (to_str decoded back for every built symbol of the corpus) is the stand-in when the renderer is restructured beyond the extraction rules.',
    },
    'C14': {
        'category': 'other',
        'text': 'Contract part: every QRBuilder setter is proved to write exactly its field and keep all others (last value wins); build(&self) cannot change the builder and its result satisfies a postcondition over the final field values only. Structural part: a scan of /repo/src for static mut / interior mutability / globals / time / randomness must be empty; a hit leaves the property undecided by contracts and the bounded native oracle (reused builders, overridden and re-ordered setters, builds after other builds, 8 concurrent threads on a deterministic corpus) decides, labelled bounded. No schedule exploration exists in this technique family.',
        'note': 'build() is proved to satisfy iso_symbol_ok over the final field values; with the automatic mask the symbol is determined up to ties only through the (deterministic, proved) selection loop. Renderers are outside reach (format!/resvg); thread independence is the type-system argument (no unsafe, no statics: scanned).',
    },
}

_NYB = 'not yet built in this round (work in progress; will be claimed or given a final reason)'
NOT_APPLICABLE = {
            'C12': 'the SVG text interpolates numbers (usize and f64 through format!/Display), joins per-module sub-paths produced through a table of function pointers and user closures (Shape::Command), and embeds caller strings; vstd specifies String::push/push_str (enough for the terminal renderer, C16) but nothing about numeric formatting or fn-pointer dispatch, the extraction rule F1 covers char placeholders only, and Kani on String code here is prohibitive (4 symbolic bytes > 20 min): no contract within reach can state the sub-path text',
    'C13': 'pixels come out of usvg/resvg/tiny-skia/png (external crates, floating-point rasterisation); no repository function whose contract could state them and no verifier here reaches those crates',
    'C19': 'the repository part is two ?-propagations around File::create/write_all/save_png; deciding file contents and fault behaviour needs contracts on std::fs/png, not on this code (Kani spike: foreign close/write unsupported)',
}


HIDDEN_STATE_PATTERNS = [r'\bstatic\s+mut\b', r'\bunsafe\b', r'\b(?:Ref)?Cell\s*<', r'\bAtomic[A-Z]\w*', r'\bMutex\b', r'\bRwLock\b', r'\bthread_local!',
                         r'\blazy_static!', r'\bOnce(?:Cell|Lock)\b', r'\bstd::env\b', r'\brand::', r'\bSystemTime\b', r'\bInstant\b', r'^\s*(?:pub\s+)?static\s+\w']


def scan_hidden_state(repo):
    """C14 side condition: syntactic scan of the library sources for anything that could make a build depend on
    history, time, threads or global state.  `#![deny(unsafe_code)]` attributes are not hits."""
    import glob as _g, os as _o
    hits = []
    for path in sorted(_g.glob(_o.path.join(repo, 'src', '**', '*.rs'), recursive=True)):
        if '/tests/' in path:
            continue
        for ln, line in enumerate(open(path, errors='replace'), 1):
            code = line.split('//')[0]
            if 'deny(unsafe_code)' in code:
                continue
            for pat in HIDDEN_STATE_PATTERNS:
                if re.search(pat, code):
                    hits.append('%s:%d: %s' % (_o.path.relpath(path, repo), ln, line.strip()[:100]))
    return hits
