"""Property table: which properties are claimed, and the static parts of the evidence."""
import re

# property id -> short description of the cone (the tags on contract clauses decide membership)
PROPS = {
    'C05': 'smallest sufficient version; over-capacity is an error',
}


def fn_default_tags(contracts, fn):
    for c in contracts:
        if c.name == fn:
            return c.tags
    return None


def scan_assumptions(text):
    """Mechanical scan of the generated file for everything that is assumed rather than proved."""
    out = []
    for m in re.finditer(r'assume_specification\s*(?:<[^>]*>\s*)?\[\s*([^\]]+?)\s*\]', text):
        out.append('assume_specification: %s' % ' '.join(m.group(1).split()))
    for kw in ('external_body', 'verifier::external]', 'admit()', 'assume(', 'verifier::exec_allows_no_decreases_clause', 'external_fn_specification'):
        n = len(re.findall(re.escape(kw), text))
        if n:
            out.append('%s: %d occurrence(s) in generated file' % (kw, n))
    return out


def trusted_base(b):
    return [
        'Verus 0.2026.09.13 + its bundled Z3; rustc 1.98.1 semantics as encoded by Verus; vstd specifications of Vec/slice/array/Option',
        'global size_of usize == 8 (64-bit targets only)',
        'extraction rules (tools/extract.py; every applied rule is listed in coverage.extraction_log)',
        'ISO model in /verif/spec/iso_*.vrs (tables transcribed from qrcode-0.12.0 / ISO 18004 Table 9, Annex E; BCH and geometry from first principles)',
    ] + scan_assumptions(b['text'])


def assumptions(b, pid):
    a = [
        'machine arithmetic is NOT treated as mathematical: all fixed-width operations are checked for overflow by Verus',
        'wasm32 variant of KEEP_LAST and 32-bit usize are not covered',
        'loop normalisation rules (R*/K0/P1) are the documented semantics of core::iter adapters on Range<usize>/slices',
    ]
    for c in b['contracts']:
        if c.assumed:
            a.append('ASSUMED (not proved) contract of %s: %s' % (c.name, c.assumed))
    return a

MANIFEST_META = {
    'C05': {
        'text': 'Verus proves, for every usize length, every mode and level, that the real Version::get returns the smallest version whose ISO capacity (4 + count bits + payload bits <= 8 x data codewords, capacity table taken from ISO Table 9 independently of the crate) holds the input, and None exactly when version 40 does not; hardcode::data_codewords/cci_bits/data_bits are proved equal to the ISO tables.',
        'note': 'Trusted: Verus/Z3, extraction rules, the ISO model. QRCode::new (forced-version comparison, error selection) and encode::add_terminator (no wrapped subtraction) are not yet under contract: see coverage.assumed_contracts_not_proved in the evidence.',
    },
}

_NYB = 'not yet built in this round (work in progress; will be claimed or given a final reason)'
NOT_APPLICABLE = {
    'C01': _NYB, 'C02': _NYB, 'C03': _NYB, 'C04': _NYB, 'C06': _NYB, 'C07': _NYB, 'C08': _NYB, 'C09': _NYB,
    'C10': _NYB, 'C11': _NYB, 'C14': _NYB, 'C15': _NYB, 'C17': _NYB, 'C18': _NYB,
    'C12': 'SVG text is built with format!/String::push_str/join and function-pointer calls; Verus has no format!/string-content reasoning and Kani on String code here is prohibitive (4 symbolic bytes > 20 min): no contract within reach can express it',
    'C13': 'pixels come out of usvg/resvg/tiny-skia/png (external crates, floating-point rasterisation); no repository function whose contract could state them and no verifier here reaches those crates',
    'C16': 'terminal renderer builds a String of multi-byte chars via push/push_str/format!; same limits as C12',
    'C19': 'the repository part is two ?-propagations around File::create/write_all/save_png; deciding file contents and fault behaviour needs contracts on std::fs/png, not on this code (Kani spike: foreign close/write unsupported)',
}
