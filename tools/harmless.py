"""Development aid: run every claimed check against each behaviour-preserving refactoring in seeded_harmless/
(must never raise an alarm: exit 0, by proof or by the labelled bounded stand-in).  Writes seeded_harmless/RESULTS.md"""
import os, re, subprocess, sys
HERE = os.path.dirname(os.path.abspath(__file__))
VERIF = os.path.dirname(HERE)
D = os.path.join(VERIF, 'seeded_harmless')
ids = sys.argv[1:] or sorted(f[:-5] for f in os.listdir(D) if f.endswith('.diff'))
rows = []
from concurrent.futures import ThreadPoolExecutor
def one(s):
    return s, subprocess.run([sys.executable, os.path.join(HERE, 'seedtest.py'), os.path.join(D, s + '.diff')], capture_output=True, text=True)
for s, p in ThreadPoolExecutor(int(os.environ.get('SEED_JOBS', '1'))).map(one, ids):
    res, how = {}, {}
    cur = None
    for l in p.stdout.split('\n'):
        m = re.match(r'(C\d\d) rc=(\d)', l)
        if m:
            cur = m.group(1); res[cur] = int(m.group(2)); how[cur] = 'proof'
        elif cur and 'BOUNDED' in l:
            how[cur] = 'bounded'
    alarms = sorted(k for k, v in res.items() if v == 1)
    und = sorted(k for k, v in res.items() if v == 2)
    bnd = sorted(k for k, v in res.items() if v == 0 and how[k] == 'bounded')
    line = '| %s | %s | %s | %s | %s |' % (s, 'FALSE ALARM ' + ' '.join(alarms) if alarms else 'no alarm', ' '.join(und), ' '.join(bnd), ' '.join(sorted(k for k, v in res.items() if v == 0 and how[k] == 'proof')))
    print(line, flush=True)
    rows.append(line)
    if p.stdout.startswith('patch failed') or not res:
        print('   ', p.stdout[:300])
open(os.path.join(D, 'RESULTS.md' if not sys.argv[1:] else 'RESULTS-partial.md'), 'w').write('| refactoring | alarms | exit 2 | exit 0 by bounded stand-in | exit 0 by proof |\n|---|---|---|---|---|\n' + '\n'.join(rows) + '\n')
