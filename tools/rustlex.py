"""Minimal Rust lexical helpers (stdlib only).

`mask(src)` returns a string of the same length in which every character that
is inside a comment, a string literal, a raw string literal, a byte string or a
char literal is replaced by a blank (newlines are kept), so that brace matching
and pattern searches can be done on *code* characters only while offsets stay
valid for the original text.
"""
import re


def mask(src: str) -> str:
    out = list(src)
    i, n = 0, len(src)

    def blank(a, b):
        for k in range(a, b):
            if out[k] != '\n':
                out[k] = ' '

    while i < n:
        c = src[i]
        if c == '/' and i + 1 < n and src[i + 1] == '/':
            j = src.find('\n', i)
            if j < 0:
                j = n
            blank(i, j)
            i = j
        elif c == '/' and i + 1 < n and src[i + 1] == '*':
            depth, j = 1, i + 2
            while j < n and depth:
                if src.startswith('/*', j):
                    depth += 1
                    j += 2
                elif src.startswith('*/', j):
                    depth -= 1
                    j += 2
                else:
                    j += 1
            blank(i, j)
            i = j
        elif c == '"' or (c in 'br' and re.match(r'(b?r#*"|b")', src[i:i + 12]) and not (i and (src[i - 1].isalnum() or src[i - 1] == '_'))):
            m = re.match(r'b?r(#*)"', src[i:])
            if m and c != '"':
                hashes = m.group(1)
                end = src.find('"' + hashes, i + m.end())
                j = (end + 1 + len(hashes)) if end >= 0 else n
                blank(i + m.end(), j - 1 - len(hashes))
                i = j
            else:
                j = i + (2 if c == 'b' else 1)
                start = j
                while j < n and src[j] != '"':
                    j += 2 if src[j] == '\\' else 1
                blank(start, j)
                i = j + 1
        elif c == "'":
            # char literal or lifetime
            if i + 1 < n and src[i + 1] == '\\':
                j = i + 2
                while j < n and src[j] != "'":
                    j += 2 if src[j] == '\\' else 1
                blank(i + 1, j)
                i = j + 1
            elif i + 2 < n and src[i + 2] == "'":
                blank(i + 1, i + 2)
                i += 3
            else:
                # multi-byte char literal such as 'α'
                m = re.match(r"'[^'\\\n]'", src[i:i + 8])
                if m and not re.match(r"'[A-Za-z_][A-Za-z0-9_]*", src[i:]) :
                    blank(i + 1, i + m.end() - 1)
                    i += m.end()
                else:
                    i += 1
        else:
            i += 1
    return ''.join(out)


OPEN = {'{': '}', '(': ')', '[': ']'}
CLOSE = {v: k for k, v in OPEN.items()}


def match_close(msk: str, i: int) -> int:
    """msk[i] is an opening bracket; return index of its closing bracket."""
    depth = 0
    n = len(msk)
    k = i
    while k < n:
        ch = msk[k]
        if ch in OPEN:
            depth += 1
        elif ch in CLOSE:
            depth -= 1
            if depth == 0:
                return k
        k += 1
    raise ValueError('unbalanced bracket at %d' % i)


def item_end(msk: str, i: int) -> int:
    """Starting at i (somewhere in an item header, after attributes), return
    the index one past the end of the item: either the first `;` at bracket
    depth 0 or the `}` matching the first `{` at paren/bracket depth 0."""
    depth = 0
    n = len(msk)
    k = i
    while k < n:
        ch = msk[k]
        if ch in '([':
            depth += 1
        elif ch in ')]':
            depth -= 1
        elif ch == ';' and depth == 0:
            return k + 1
        elif ch == '{' and depth == 0:
            return match_close(msk, k) + 1
        k += 1
    raise ValueError('item without end at %d' % i)


def skip_attrs_and_docs(src: str, msk: str, i: int) -> int:
    """From i skip whitespace, doc/line comments and `#[...]` attributes."""
    n = len(src)
    while i < n:
        if src[i].isspace():
            i += 1
        elif src.startswith('//', i):
            j = src.find('\n', i)
            i = n if j < 0 else j + 1
        elif src.startswith('/*', i):
            # comment: masked as blanks, find end via original
            j = src.find('*/', i)
            i = n if j < 0 else j + 2
        elif src.startswith('#[', i):
            i = match_close(msk, i + 1) + 1
        else:
            break
    return i


def split_top(msk: str, a: int, b: int, sep: str):
    """Split msk[a:b] at top-level occurrences of `sep`; returns list of (s,e)."""
    parts = []
    depth = 0
    s = a
    k = a
    L = len(sep)
    while k < b:
        ch = msk[k]
        if ch in OPEN:
            depth += 1
        elif ch in CLOSE:
            depth -= 1
        elif depth == 0 and msk.startswith(sep, k):
            parts.append((s, k))
            s = k + L
            k += L
            continue
        k += 1
    parts.append((s, b))
    return parts
