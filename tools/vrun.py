"""Build the generated Verus file from /repo's working tree, run Verus (cached by
content hash), parse and attribute diagnostics to tagged obligations."""
import glob
import hashlib
import json
import os
import re
import subprocess
import sys
import time

HERE = os.path.dirname(os.path.abspath(__file__))
VERIF = os.path.dirname(HERE)
sys.path.insert(0, HERE)
from extract import extract_module, h2_callsites, CORE_MODS, Unsupported  # noqa: E402
from splice import parse_ctr, splice_module, unsentinel, index_functions, LostAnchor, ContractError  # noqa: E402
from rustlex import mask  # noqa: E402

REPO = os.environ.get('VERIF_REPO', '/repo')
GEN_DIR = os.path.join(VERIF, 'gen')
CACHE_DIR = os.path.join(VERIF, '.cache')
GEN_NAME = 'fastqr_verus.rs'


class Undecided(Exception):
    pass


def load_contracts():
    by_mod = {}
    allc = []
    for p in sorted(glob.glob(os.path.join(VERIF, 'contracts', '*.ctr'))):
        for c in parse_ctr(open(p).read(), os.path.basename(p)):
            by_mod.setdefault(c.name.split('::', 1)[0], []).append(c)
            allc.append(c)
    return by_mod, allc


def reexports():
    lib = open(os.path.join(REPO, 'src', 'lib.rs')).read()
    return ''.join(l + '\n' for l in re.findall(r'^pub use crate::[^\n]*;', lib, flags=re.M))


def is_module_abort(msg):
    return 'expression simplifies to' in msg or 'failed to simplify' in msg


def build(extra_mods=(), force_assumed=(), drop_ghost=(), drop_contract=(), external_items=(), external_fns=()):
    """Returns dict with text, registry (clauses), logs, assumed, fn line ranges."""
    by_mod, allc = load_contracts()
    # functions without a contract (new in this tree) that the verifier cannot take as they are: left unverified
    have_ = {c.name for c in allc}
    for name_ in force_assumed:
        if name_ not in have_ and '::' in name_:
            from splice import FnContract
            c_ = FnContract(name_)
            c_.tags = []
            allc.append(c_)
            by_mod.setdefault(name_.split('::', 1)[0], []).append(c_)
    for c in allc:
        if c.name in drop_contract:
            # the signature of the function changed so much that its contract no longer type-checks: the function is
            # left unverified WITHOUT a contract (callers learn nothing from it)
            c.requires, c.ensures, c.decreases, c.ret, c.closures = [], [], None, None, []
            c.consts = {}
            c.contract_dropped = True
        if c.name in external_fns:
            c.fully_external = True
    for c in allc:
        if c.name in force_assumed and not c.assumed:
            c.assumed = 'forced after a module-aborting failure in this function (contract assumed to examine the rest of its module)'
            c.forced = True
    registry = []
    logs = {}
    chunks = ['// GENERATED from %s/src on every run by /verif/tools — do not edit\n' % REPO,
              '#![allow(unused_imports, unused_variables, dead_code, unused_mut, unused_assignments, non_snake_case, unused_parens, unused_braces)]\n',
              'use vstd::prelude::*;\n', reexports()]
    iso_files = sorted(glob.glob(os.path.join(VERIF, 'spec', 'iso*.vrs')))
    iso_names = [os.path.basename(p)[:-4] for p in iso_files]
    ISO_SLOT = len(chunks)
    chunks.append('')
    mods = list(CORE_MODS) + list(extra_mods)
    if os.environ.get('VERIF_WASM', '1') == '1' and os.path.exists(os.path.join(REPO, 'src', 'wasm.rs')):
        mods.append('wasm')
    insertion_only = True
    lost_all = []
    d1 = []
    unsup = []
    extracted = {}
    all_twins = []
    for m in mods:
        lg = []
        path = os.path.join(REPO, 'src', m + '.rs')
        try:
            src, twins = extract_module(path, lg)
            for t in twins:
                t['module'] = m
            d1 += [t for t in twins if 'd1_type' in t]
            unsup += [t for t in twins if 'unsupported_fn_pos' in t]
            all_twins += [t for t in twins if 'd1_type' not in t and 'unsupported_fn_pos' not in t]
            extracted[m] = src
        except Unsupported as e:
            raise Undecided('extraction: %s: %s' % (m, e))
        except FileNotFoundError:
            raise Undecided('extraction: source file %s missing' % path)
        except Exception as e:  # lexer confusion etc.
            raise Undecided('extraction: %s: %r' % (m, e))
        logs[m] = lg
    for t in unsup:
        fns_, _m = index_functions(extracted[t['module']])
        for q_, (kw_, bo_, bc_) in fns_.items():
            if kw_ == t['unsupported_fn_pos']:
                name_ = t['module'] + '::' + q_
                hit_ = [c for c in allc if c.name == name_]
                if not hit_:
                    from splice import FnContract
                    c_ = FnContract(name_)
                    allc.append(c_)
                    by_mod.setdefault(t['module'], []).append(c_)
                    hit_ = [c_]
                hit_[0].assumed = 'UNSUPPORTED CONSTRUCT: ' + t['why']
                hit_[0].lost = True
                lost_all.append((name_, t['why']))
    for m in mods:
        src = h2_callsites(extracted[m], all_twins, logs[m])
        spliced, lost = splice_module(m, src, by_mod.get(m, []), registry)
        for c_, why in lost:
            lost_all.append((c_.name, why))
        spliced, ok = unsentinel(spliced, src)
        insertion_only = insertion_only and ok
        for (m_, first_) in external_items:
            # a module-level const/static of the edited tree that the verifier cannot take (mode error, unsupported
            # initialiser): left outside verification; the functions that use it are then isolated individually
            if m_ == m:
                k_ = spliced.find('\n' + first_)
                if k_ >= 0:
                    spliced = spliced[:k_ + 1] + '#[verifier::external]\n' + spliced[k_ + 1:]
                    logs[m].append('X-ITEM module-level item left outside verification (verifier cannot take it): ' + first_[:100])
        ghost = ''
        for t in [t for t in all_twins if t['module'] == m]:
            c = [c for c in allc if c.name == '%s::%s' % (m, t['twin'])]
            pre = ' && '.join('(%s)' % cl.text for cl in c[0].requires) if c and c[0].requires else 'true'
            post = ' && '.join('(%s)' % cl.text for cl in c[0].ensures) if c and c[0].ensures else 'true'
            rn = (c[0].ret if c and c[0].ret else 'r')
            ghost += ('\n// ---- H2 (generated from the contract of %(twin)s)\n'
                      'pub open spec fn %(twin)s__pre(%(param)s: %(arg_ty)s) -> bool { %(pre)s }\n'
                      'pub open spec fn %(twin)s__post(%(param)s: %(arg_ty)s, %(rn)s: %(type)s) -> bool { %(post)s }\n'
                      'pub proof fn %(twin)s__req(%(param)s: %(arg_ty)s) requires %(twin)s__pre(%(param)s) {}\n'
                      'pub assume_specification [<%(type)s as core::convert::From<%(arg_ty)s>>::from] (%(param)s: %(arg_ty)s) -> (%(rn)s: %(type)s)\n'
                      '    ensures %(twin)s__pre(%(param)s) ==> %(twin)s__post(%(param)s, %(rn)s);\n'
                      % dict(t, pre=pre, post=post, rn=rn))
        gp = os.path.join(VERIF, 'spec', 'mod_%s.vrs' % m)
        if os.path.exists(gp):
            ghost += '\n// ---- ghost additions (G1) from spec/mod_%s.vrs\n' % m + drop_items(open(gp).read(), [d_[1] for d_ in drop_ghost if d_[0] == m], logs[m])
        globs = ''.join('use crate::%s::*;\n' % o for o in mods if o != m)
        chunks.append('pub mod %s {\nuse vstd::prelude::*;\nuse crate::iso::*;\n%sverus! {\n%s\n%s\n}\n} // @endmod\n' % (m, globs, spliced, ghost))
    iso_chunks = []
    # iso_gf (self-contained, compute-heavy) gets its own module so that it verifies in parallel; all other
    # ISO files share one module (by(compute) must see through opaque table functions, which only works
    # inside the defining module)
    sep = [nm for nm in iso_names if nm in ('iso_gf', 'iso_synd', 'iso_uniq')]
    main_text = ''
    for p, nm in zip(iso_files, iso_names):
        if nm in sep:
            uses = ''.join('use crate::%s::*;\n' % o for o in mods) + ''.join('use crate::%s::*;\n' % o for o in sep if o < nm)
            iso_chunks.append('pub mod %s {\nuse vstd::prelude::*;\nuse crate::*;\n%sverus! {\n// ---- %s\n%s\n}\n}\n' % (nm, uses, os.path.basename(p), open(p).read()))
        else:
            main_text += '// ---- %s\n' % os.path.basename(p) + open(p).read() + '\n'
    uses = ''.join('use crate::%s::*;\n' % o for o in mods) + ''.join('pub use crate::%s::*;\n' % o for o in sep)
    iso_chunks.append('pub mod iso {\nuse vstd::prelude::*;\nuse crate::*;\n%sverus! {\n%s\n}\n}\n' % (uses, main_text))
    chunks[ISO_SLOT] = ''.join(iso_chunks)
    if 'wasm' in mods:
        chunks.append('pub mod convert {\nuse vstd::prelude::*;\nverus! {\n%s\n}\n}\n' % open(os.path.join(VERIF, 'spec', 'stub_convert.vrs')).read())
    d1_text = ''.join('pub assume_specification [<crate::%s::%s as Clone>::clone] (q: &crate::%s::%s) -> (r: crate::%s::%s)\n    ensures r == *q;\n' % (t['module'], t['d1_type'], t['module'], t['d1_type'], t['module'], t['d1_type']) for t in d1)
    chunks.append('verus! {\n' + d1_text + open(os.path.join(VERIF, 'spec', 'prelude.vrs')).read() + '\n}\nfn main() {}\n')
    text = ''.join(chunks)
    if not insertion_only:
        raise Undecided('internal: splice was not insertion-only')
    bodies = {}
    for m in mods:
        fns_, _m = index_functions(extracted[m])
        for q_, (kw_, bo_, bc_) in fns_.items():
            bodies[m + '::' + q_] = [hashlib.sha1(' '.join(extracted[m][kw_:bc_ + 1].split()).encode()).hexdigest()[:16],
                                     shape_hash(extracted[m][kw_:bc_ + 1]), shape_tokens(extracted[m][kw_:bc_ + 1])]
    calls = {}
    for m in mods:
        fns_, _m = index_functions(extracted[m])
        for q_, (kw_, bo_, bc_) in fns_.items():
            calls[m + '::' + q_] = call_names(extracted[m][bo_:bc_ + 1])
    return {'text': text, 'registry': registry, 'logs': logs, 'contracts': allc, 'lost': lost_all, 'bodies': bodies, 'calls': calls}


def call_names(body_text):
    import rustlex
    msk = rustlex.mask(body_text)
    return sorted({m_.group(1) for m_ in re.finditer(r'\b([A-Za-z_][A-Za-z_0-9]*)\s*\(', msk)})


def ghost_item_at(text, line):
    """(module, first line of the item) of the ghost-addition item (spec/mod_<m>.vrs text inside module m) that
    contains `line` of the generated text, or None when the line is not inside ghost additions."""
    import rustlex
    lines = text.split('\n')
    mod_, start_ = None, None
    for i in range(min(line, len(lines)) - 1, -1, -1):
        mm = re.match(r'// ---- ghost additions \(G1\) from spec/mod_(\w+)\.vrs', lines[i])
        if mm:
            mod_, start_ = mm.group(1), i + 1
            break
        if lines[i].startswith('} // @endmod') or lines[i].startswith('pub mod '):
            return None
    if mod_ is None:
        return None
    end_ = start_
    while end_ < len(lines) and not lines[end_].startswith('} // @endmod'):
        end_ += 1
    region = '\n'.join(lines[start_:end_ - 1])
    msk = rustlex.mask(region)
    off = sum(len(l) + 1 for l in lines[start_:line - 1])
    # items start at column 0 in the spec files
    pos = 0
    best = None
    for mm in re.finditer(r'(?m)^(?=[A-Za-z#])', msk):
        if mm.start() < pos:
            continue
        st = mm.start()
        j = rustlex.skip_attrs_and_docs(region, msk, st)
        try:
            en = rustlex.item_end(msk, j)
        except Exception:
            break
        if st <= off < en:
            best = region[j:region.find('\n', j) if region.find('\n', j) >= 0 else len(region)].strip()
            break
        pos = en
    return (mod_, best) if best else None


def module_item_at(text, line):
    """(module, first line) of the module-level const/static item of an EXTRACTED module that contains `line` of the
    generated text, or None."""
    import rustlex
    lines = text.split('\n')
    mod_, start_ = None, None
    for i in range(min(line, len(lines)) - 1, -1, -1):
        if lines[i].startswith('// ---- ghost additions') or lines[i].startswith('// ---- H2') or lines[i].startswith('} // @endmod'):
            return None
        if lines[i].startswith('verus! {') and i >= 1:
            for j in range(i, max(i - 40, -1), -1):
                mm = re.match(r'pub mod (\w+) \{', lines[j])
                if mm:
                    mod_, start_ = mm.group(1), i + 1
                    break
            break
    if mod_ is None or mod_ in ('iso', 'iso_gf', 'iso_synd', 'iso_uniq', 'convert'):
        return None
    end_ = start_
    while end_ < len(lines) and not (lines[end_].startswith('} // @endmod') or lines[end_].startswith('// ---- ghost additions') or lines[end_].startswith('// ---- H2')):
        end_ += 1
    region = '\n'.join(lines[start_:end_])
    msk = rustlex.mask(region)
    off = sum(len(l) + 1 for l in lines[start_:line - 1])
    pos = 0
    for mm in re.finditer(r'(?m)^(?=[A-Za-z#])', msk):
        st = mm.start()
        if st < pos:
            continue
        j = rustlex.skip_attrs_and_docs(region, msk, st)
        try:
            en = rustlex.item_end(msk, j)
        except Exception:
            return None
        if st <= off < en:
            nl = region.find('\n', j)
            first = region[j:nl if nl >= 0 else len(region)].rstrip()
            if re.match(r'(pub(\([a-z]+\))?\s+)?(exec\s+)?(const|static)\s+\w+\s*:', first) or re.match(r'(pub(\([a-z]+\))?\s+)?(struct|enum)\s+\w+', first):
                return (mod_, first)
            return None
        pos = en
    return None


def drop_items(text, first_lines, log):
    """Remove the column-0 items of a spec file whose first line (after attributes/docs) is in first_lines."""
    if not first_lines:
        return text
    import rustlex
    msk = rustlex.mask(text)
    out, pos = [], 0
    for mm in re.finditer(r'(?m)^(?=[A-Za-z#])', msk):
        st = mm.start()
        if st < pos:
            continue
        j = rustlex.skip_attrs_and_docs(text, msk, st)
        try:
            en = rustlex.item_end(msk, j)
        except Exception:
            break
        nl = text.find('\n', j)
        first = text[j:nl if nl >= 0 else len(text)].strip()
        if first in first_lines:
            out.append(text[pos:st])
            out.append('// [dropped: no longer compiles against this tree] ' + first[:120] + '\n')
            log.append('G-DROP ghost item dropped (does not compile against this tree): ' + first[:120])
            pos = en
        else:
            out.append(text[pos:en])
            pos = en
    out.append(text[pos:])
    return ''.join(out)


_SHAPE_KW = {'for', 'while', 'loop', 'if', 'else', 'match', 'let', 'return', 'break', 'continue', 'fn', 'const', 'in'}


def shape_tokens(fn_text):
    import rustlex
    msk = rustlex.mask(fn_text)
    toks = []
    for m_ in re.finditer(r'[A-Za-z_][A-Za-z_0-9]*!?|[{}]', msk):
        t_ = m_.group(0)
        if t_ in '{}' or t_ in _SHAPE_KW:
            toks.append(t_)
        else:
            rest = msk[m_.end():m_.end() + 2].lstrip()
            if rest.startswith('(') or t_.endswith('!'):
                toks.append(t_ + '()')
    return toks


def shape_distance(a, b):
    """number of skeleton tokens inserted, deleted or replaced between two bodies"""
    import difflib
    sm = difflib.SequenceMatcher(None, a, b, autojunk=False)
    return sum(max(i2 - i1, j2 - j1) for tag, i1, i2, j1, j2 in sm.get_opcodes() if tag != 'equal')


def shape_hash(fn_text):
    """Hash of the control/call skeleton of a function: keywords, braces, and the names of called functions,
    methods and macros; literals, operators and plain identifiers are ignored.  Two bodies with the same skeleton
    differ only in constants, operators, indices, bounds or variable names."""
    import rustlex
    msk = rustlex.mask(fn_text)
    toks = []
    for m_ in re.finditer(r'[A-Za-z_][A-Za-z_0-9]*!?|[{}]', msk):
        t_ = m_.group(0)
        if t_ in '{}' or t_ in _SHAPE_KW:
            toks.append(t_)
        else:
            rest = msk[m_.end():m_.end() + 2].lstrip()
            if rest.startswith('(') or t_.endswith('!'):
                toks.append(t_ + '()')
    return hashlib.sha1(' '.join(toks).encode()).hexdigest()[:16]


def line_index(text):
    """(clause_ranges, fn_ranges, tag_ranges)"""
    lines = text.split('\n')
    clause_ranges = []   # (l0, l1, oid)
    cur = None
    for i, l in enumerate(lines, 1):
        for m in re.finditer(r'/\*#(OB ([^*]+)|END)\*/', l):
            if cur:
                clause_ranges.append((cur[0], i if m.start() > 0 and l[:m.start()].strip() else i - 1, cur[1]))
                cur = None
            if m.group(1) != 'END':
                cur = (i, m.group(2))
    # spec-file pragma tags: `//@tags C07 C02` applies until next pragma or module end
    tag_ranges = []
    curt = None
    for i, l in enumerate(lines, 1):
        m = re.match(r'\s*//@tags\s*(.*)', l)
        if m or l.startswith('pub mod ') or l.startswith('// ---- '):
            if curt:
                tag_ranges.append((curt[0], i - 1, curt[1]))
                curt = None
            if m:
                curt = (i, m.group(1).split())
    if curt:
        tag_ranges.append((curt[0], len(lines), curt[1]))
    # function ranges with module-qualified names
    fn_ranges = []
    offs = [0]
    for l in lines:
        offs.append(offs[-1] + len(l) + 1)
    import bisect
    for mm in re.finditer(r'^pub mod (\w+) \{$', text, flags=re.M):
        name = mm.group(1)
        end = text.find('\n}\n} // @endmod', mm.end())
        if end < 0:
            continue
        seg = text[mm.end():end]
        fns, _ = index_functions(seg)
        for q, (kw, bo, bc) in fns.items():
            a = bisect.bisect_right(offs, mm.end() + kw)
            b = bisect.bisect_right(offs, mm.end() + bc)
            fn_ranges.append((a, b, name + '::' + q))
    return clause_ranges, fn_ranges, tag_ranges


def verus_version():
    try:
        return subprocess.run(['verus', '--version'], capture_output=True, text=True).stdout.strip().replace('\n', ' ')
    except Exception as e:
        return 'verus? %r' % e


def run_verus(text, extra_args=(), tag='main'):
    os.makedirs(GEN_DIR, exist_ok=True)
    os.makedirs(CACHE_DIR, exist_ok=True)
    args = ['--triggers-mode', 'silent', '--output-json', '--time-expanded', '--error-format=json',
            '--multiple-errors', '50', '--num-threads', '16'] + list(extra_args)
    if '--rlimit' not in args:
        args += ['--rlimit', '60']   # generous default (Verus default is 10): headroom against solver perturbation
    h = hashlib.sha256((text + '\0' + ' '.join(args) + '\0' + verus_version()).encode()).hexdigest()
    cpath = os.path.join(CACHE_DIR, h + '.json')
    # the file handed to Verus is named after its content: concurrent checks of different trees never clobber
    # each other's input (a copy under the plain name is kept for reading)
    plain = os.path.join(GEN_DIR, GEN_NAME if tag == 'main' else 'fastqr_%s.rs' % tag)
    gen = os.path.join(GEN_DIR, 'fastqr_%s_%s.rs' % (tag, h[:12]))
    try:
        with open(plain, 'w') as f:
            f.write(text)
    except OSError:
        pass
    if os.path.exists(cpath) and not os.environ.get('VERIF_NOCACHE'):
        r = json.load(open(cpath))
        r['cached'] = True
        return r
    tmp = gen + '.%d.tmp' % os.getpid()
    with open(tmp, 'w') as f:
        f.write(text)
    os.replace(tmp, gen)
    t0 = time.time()
    cmd = ['verus', gen] + args
    p = subprocess.run(cmd, capture_output=True, text=True, cwd=GEN_DIR)
    wall = time.time() - t0
    try:
        out = json.loads(p.stdout)
    except Exception:
        out = None
    diags = []
    raw = []
    for l in p.stderr.split('\n'):
        l = l.strip()
        if l.startswith('{'):
            try:
                diags.append(json.loads(l))
                continue
            except Exception:
                pass
        if l:
            raw.append(l)
    r = {'cmd': ' '.join(cmd), 'rc': p.returncode, 'wall_s': wall, 'out': out, 'diags': diags, 'raw': raw[:200],
         'hash': h, 'cached': False}
    tmpc = cpath + '.%d.tmp' % os.getpid()
    with open(tmpc, 'w') as f:
        json.dump(r, f)
    os.replace(tmpc, cpath)
    # old content-addressed inputs are swept lazily (never the one in use)
    try:
        now = time.time()
        for fn_ in os.listdir(GEN_DIR):
            fp_ = os.path.join(GEN_DIR, fn_)
            if re.fullmatch(r'fastqr_\w+_[0-9a-f]{12}\.rs', fn_) and fp_ != gen and now - os.path.getmtime(fp_) > 7200:
                os.remove(fp_)
    except OSError:
        pass
    return r


TOOL_LIMIT_PATTERNS = [
    r'rlimit', r'Resource limit', r'not supported', r'unsupported', r'The verifier does not yet support',
    r'timed? ?out', r'could not', r'internal error', r'panicked', r'loop must have a decreases clause',
    r'assume_specification', r'must have a decreases',
]
FAILURE_PATTERNS = [
    r'^postcondition not satisfied', r'^precondition not satisfied', r'^invariant not satisfied', r'^assertion failed',
    r'^possible arithmetic underflow/overflow', r'^possible division by zero', r'^possible bit shift',
    r'^decreases not satisfied', r'^expression simplifies to', r'^loop invariant', r'^could not prove termination',
    r'^unable to prove assertion safety condition', r'^recommendation not met', r'^failed precondition',
    r'^termination', r'^cannot show invariant', r'^index out of bounds', r'^possible overflow', r'^precondition not met',
]
SAFETY_MSGS = [
    'possible arithmetic underflow/overflow', 'possible division by zero', 'possible bit shift underflow/overflow',
    'decreases not satisfied', 'index out of bounds',
    'recursive call', 'precondition not satisfied', 'precondition not met', 'assertion failed', 'unreachable',
]


def classify(res, text, registry):
    """Return (failures, tool_errors, stats). failure: dict(msg, line, fn, oid, tags, kind, rendered)"""
    clause_ranges, fn_ranges, tag_ranges = line_index(text)
    by_oid = {c.oid: c for c in registry}
    fn_tags = {}
    failures, tool = [], []

    def fn_at(line):
        best = None
        for a, b, q in fn_ranges:
            if a <= line <= b and (best is None or a >= best[0]):
                best = (a, b, q)
        return best[2] if best else None

    def clause_at(line):
        for a, b, oid in clause_ranges:
            if a <= line <= b:
                return oid
        return None

    def pragma_at(line):
        for a, b, tags in tag_ranges:
            if a <= line <= b:
                return tags
        return None

    vir_error = bool(res['out'] and res['out'].get('verification-results', {}).get('encountered-vir-error'))
    if res['out'] is None:
        tool.append({'msg': 'verus produced no JSON result (rc=%s): %s' % (res['rc'], ' | '.join(res['raw'][:5])), 'line': 0, 'fn': None, 'compile': False})
    for d in res['diags']:
        if d.get('level') != 'error':
            continue
        msg = d.get('message', '')
        if msg.startswith('aborting due to'):
            continue
        spans = [s for s in d.get('spans', []) if os.path.basename(s.get('file_name', '')).startswith('fastqr_')]
        rendered = d.get('rendered') or msg
        code = (d.get('code') or {}).get('code') if d.get('code') else None
        is_tool = bool(code) or any(re.search(p, msg, re.I) for p in TOOL_LIMIT_PATTERNS)
        # rustc errors (with an error code) or parse errors are never verification failures
        if re.search(r'^(expected|unexpected|cannot find|mismatched|unresolved|no method|failed to resolve)', msg):
            is_tool = True
        if not any(re.search(p_, msg) for p_ in FAILURE_PATTERNS):
            is_tool = True   # only recognised proof-obligation failures can ever become violations
        if is_tool:
            # locate the error: primary span first, then any span that falls inside a function under contract
            cand = [s_['line_start'] for s_ in spans if s_.get('is_primary')] + [s_['line_start'] for s_ in spans]
            line = cand[0] if cand else 0
            known_fns = {c_.fn for c_ in registry}
            for ln_ in cand:
                if fn_at(ln_) in known_fns:
                    line = ln_
                    break
            tool.append({'msg': msg, 'line': line, 'fn': fn_at(line), 'compile': bool(code) or not any(re.search(p_, msg) for p_ in TOOL_LIMIT_PATTERNS)})
            continue
        prim = [s for s in spans if s.get('is_primary')] or spans
        line = prim[0]['line_start'] if prim else 0
        oid = None
        for s in spans:
            o = clause_at(s['line_start'])
            if o:
                oid = o
                # prefer the span explicitly labelled as the failed clause
                if s.get('label') and 'failed' in s['label']:
                    break
        fn = fn_at(line)
        ckind, explicit, ctext = None, False, ''
        if oid and oid in by_oid:
            tags = list(by_oid[oid].tags)
            kind = 'clause'
            ckind, explicit = by_oid[oid].kind, getattr(by_oid[oid], 'explicit', False)
            ctext = by_oid[oid].text
        else:
            kind = 'safety' if any(m in msg for m in SAFETY_MSGS) else 'other'
            tags = None
        failures.append({'msg': msg, 'line': line, 'fn': fn, 'oid': oid, 'tags': tags, 'kind': kind, 'ckind': ckind, 'explicit': explicit, 'ctext': ctext,
                         'pragma': pragma_at(line), 'rendered': rendered[:4000]})
    return failures, tool


def retry_function(text, fn, seeds=(1, 2)):
    """Re-verify the whole MODULE of a failing function with other SMT seeds and a larger resource limit.
    Returns the first seed under which the module verifies with 0 errors, else None.  (Module granularity:
    inner consts and lemmas of the function are separate verification units and must be covered too.)"""
    module = re.split(r'::(?![^<]*>)', fn)[0]
    for s in seeds:
        res = run_verus(text, extra_args=['--verify-module', module, '--smt-option', 'smt.random_seed=%d' % s, '--rlimit', '180'], tag='retry')
        out = res.get('out') or {}
        vr = out.get('verification-results', {})
        if vr and not vr.get('encountered-error') and vr.get('verified', 0) >= 1 and not vr.get('errors'):
            return s
        if not vr:
            return None
    return None
