#!/bin/bash
cd "$(dirname "$0")/.."
export SEED_JOBS=${SEED_JOBS:-6}
python3 tools/setup.py | tail -2
echo "=== seeded"; python3 tools/seedall.py
echo "=== harmless"; python3 tools/harmless.py
