"""Model facts by verified computation.

Builds gen/fastqr_model_facts.rs = the generated crate + module `model_check` (spec/checker_*.vrs: exec mirrors of
the ISO layout functions, each verified against the spec), verifies that module with Verus, compiles the file
(verus --compile) and RUNS the binary.  If it prints MODEL-FACTS-OK the facts
    zz_count_before(v, (n-1)/2) == iso_raw_modules(v)   and   iso_data_in_rows(v, n) == iso_raw_modules(v)   (all 40 v)
hold, by soundness of Verus and the compiled code.  A stamp keyed by the hash of every spec/iso*.vrs and
checker file is written to .cache/model_facts.stamp; the checks accept the external_body lemmas
axiom_zigzag_total / axiom_data_rows_total only while the stamp matches (else UNDECIDED)."""
import hashlib, glob, os, subprocess, sys, time, json
HERE = os.path.dirname(os.path.abspath(__file__))
sys.path.insert(0, HERE)
import vrun
VERIF = vrun.VERIF
STAMP = os.path.join(VERIF, '.cache', 'model_facts.stamp')

def spec_hash():
    h = hashlib.sha256()
    for p in sorted(glob.glob(os.path.join(VERIF, 'spec', 'iso*.vrs')) + glob.glob(os.path.join(VERIF, 'spec', 'checker_*.vrs'))):
        h.update(p.encode()); h.update(open(p, 'rb').read())
    h.update(vrun.verus_version().encode())
    return h.hexdigest()

def stamp_ok():
    try:
        return json.load(open(STAMP)).get('hash') == spec_hash()
    except Exception:
        return False

def run():
    os.makedirs(os.path.join(VERIF, '.cache'), exist_ok=True)
    os.makedirs(vrun.GEN_DIR, exist_ok=True)
    # one builder at a time (concurrent checks share gen/ and the stamp)
    import fcntl
    with open(os.path.join(VERIF, '.cache', 'model_facts.lock'), 'w') as lk:
        fcntl.flock(lk, fcntl.LOCK_EX)
        if stamp_ok():
            return True
        return _run()


def _run():
    b = vrun.build()
    chk = ''.join('// ---- %s\n' % os.path.basename(p) + open(p).read() + '\n' for p in sorted(glob.glob(os.path.join(VERIF, 'spec', 'checker_*.vrs')), reverse=True))
    mods = [m for m in vrun.CORE_MODS]
    uses = ''.join('use crate::%s::*;\n' % o for o in mods) + 'use crate::iso::*;\n'
    text = b['text'].replace('fn main() {}\n', '')
    text += 'pub mod model_check {\nuse vstd::prelude::*;\nuse crate::*;\n%sverus! {\n%s\n}\n}\n' % (uses, chk)
    text += 'fn main() { if crate::model_check::x_check_all() { println!("MODEL-FACTS-OK"); } else { println!("MODEL-FACTS-FAILED"); std::process::exit(1); } }\n'
    src = os.path.join(vrun.GEN_DIR, 'fastqr_model_facts.rs')
    open(src, 'w').write(text)
    t0 = time.time()
    p = subprocess.run(['verus', src, '--triggers-mode', 'silent', '--verify-module', 'model_check', '--rlimit', '100', '--compile', '-o', os.path.join(vrun.GEN_DIR, 'model_facts_bin')],
                       capture_output=True, text=True, cwd=vrun.GEN_DIR)
    ok_verify = 'verification results::' in p.stdout and ', 0 errors' in p.stdout
    print(p.stdout.strip().split('\n')[-1] if p.stdout.strip() else p.stderr[-2000:])
    if not ok_verify:
        print('\n'.join(l for l in p.stderr.split('\n') if l.startswith('error'))[:3000])
        return False
    binp = os.path.join(vrun.GEN_DIR, 'model_facts_bin')
    if not os.path.exists(binp):
        print('no binary produced', p.stderr[-1500:]); return False
    q = subprocess.run([binp], capture_output=True, text=True)
    print(q.stdout.strip(), 'verify+compile+run %.0fs' % (time.time() - t0))
    if 'MODEL-FACTS-OK' in q.stdout:
        json.dump({'hash': spec_hash(), 'when': time.time(), 'verus': p.stdout.strip().split('\n')[-1]}, open(STAMP, 'w'))
        return True
    return False

if __name__ == '__main__':
    sys.exit(0 if run() else 1)
