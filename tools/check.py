#!/usr/bin/env python3
"""./check <Cxx> [--tier quick|thorough] [--replay path]

Decides one property by running the contract verification of the code currently in /repo
(shared, content-addressed Verus run) and attributing failed obligations to the property.

exit 0  every obligation in the property's cone discharged (or only KNOWN-FINDING lines)
exit 1  VIOLATION property=<id> replay=<path>[ no-failing-input-found]
exit 2  UNDECIDED (tool limit: unsupported construct, lost anchor, rlimit, ghost-text compile error)
"""
import argparse
import json
import os
import re
import sys
import time

HERE = os.path.dirname(os.path.abspath(__file__))
sys.path.insert(0, HERE)
import vrun  # noqa: E402
import props  # noqa: E402

VERIF = vrun.VERIF


def load_known():
    findings, fixed = [], []
    p = os.path.join(VERIF, 'known_findings.txt')
    if os.path.exists(p):
        for l in open(p):
            l = l.strip()
            m = re.match(r'finding:\s*property=(\S+)\s+obligation=(\S+)\s+site=(\S+)\s*(.*)', l)
            if m:
                findings.append({'property': m.group(1), 'obligation': m.group(2), 'site': m.group(3), 'what': m.group(4)})
            elif l.startswith('fixed:'):
                fixed.append(l)
    return findings, fixed


def failure_key(f):
    """Stable id of a failed obligation."""
    if f['oid']:
        return f['oid']
    return '%s#%s' % (f['fn'], re.sub(r'[^a-z]+', '_', f['msg'].lower()).strip('_')[:40])


def verify_tree():
    """Shared verification of the whole generated crate. Returns dict(build, failures, tool, results)."""
    forced = set()
    all_fail, seen = [], set()
    tool = []
    tool_hist = []
    res = None
    b = None
    dropped = set()
    dropped_contracts = set()
    ext_items = set()
    ext_fns = set()
    for attempt in range(16):
        b = vrun.build(force_assumed=forced, drop_ghost=sorted(dropped), drop_contract=sorted(dropped_contracts), external_items=sorted(ext_items), external_fns=sorted(ext_fns))
        res = vrun.run_verus(b['text'])
        fails, tool = vrun.classify(res, b['text'], b['registry'])
        for f in fails:
            k = (failure_key(f), f['line'] if not f['oid'] else 0)
            if k not in seen:
                seen.add(k)
                all_fail.append(f)
        hard = {f['fn'] for f in fails if f['fn'] and vrun.is_module_abort(f['msg'])} - forced
        # rustc/VIR errors located in one function (typically ghost text that no longer matches an edited body):
        # leave that function unverified (UNDECIDED for its properties only) and examine everything else
        known = {c.name for c in b['contracts']} | set(b.get('bodies', {}).keys())
        # ... as are constructs the verifier does not support (a std function without specification, ...): the function
        # that contains them is left unverified so that the rest of the crate is still examined
        unsupported_re = r'not supported|unsupported|does not yet support|not yet supported|must have a decreases clause|exec_allows_no_decreases_clause'
        comp = {t['fn'] for t in tool if (t.get('compile') or re.search(unsupported_re, t['msg'])) and t['fn'] in known} - forced
        if any((t.get('compile') or re.search(unsupported_re, t['msg'])) and t['fn'] not in known for t in tool):
            # a compile error outside every function under contract: if it sits in a ghost-addition item (a lemma or a
            # ghost impl that mentions something the edited tree no longer has), drop that item and try again - the
            # functions whose proofs used it then fail to compile themselves and are handled individually
            new_drop = set()
            for t in tool:
                if t.get('compile') and t['fn'] not in known:
                    gi = vrun.ghost_item_at(b['text'], t['line'])
                    if gi and gi not in dropped:
                        new_drop.add(gi)
            if new_drop:
                dropped |= new_drop
                continue
            new_ext = set()
            for t in tool:
                if (t.get('compile') or re.search(unsupported_re, t['msg'])) and t['fn'] not in known:
                    mi = vrun.module_item_at(b['text'], t['line'])
                    if mi and mi not in ext_items:
                        new_ext.add(mi)
            if new_ext:
                ext_items |= new_ext
                for (m_, first_) in new_ext:
                    mt = re.match(r'(?:pub(?:\([a-z]+\))?\s+)?(?:struct|enum)\s+(\w+)', first_)
                    if mt:
                        # the methods of a type left outside verification are outside it too (their signatures mention it)
                        meth = {k_ for k_ in known if k_.startswith('%s::%s::' % (m_, mt.group(1)))}
                        forced |= meth
                        dropped_contracts |= meth
                        ext_fns |= meth
                continue
            comp = set()
            if not hard:
                break
        for t in tool:
            if (t.get('compile') or re.search(unsupported_re, t['msg'])) and t['fn'] in comp and t not in tool_hist:
                tool_hist.append(t)
        # a function that is already left unverified and still does not compile: its contract text itself no longer
        # type-checks against the new signature -> drop the contract as well
        again = {t['fn'] for t in tool if t.get('compile') and t['fn'] in forced and t['fn'] not in dropped_contracts}
        if again:
            dropped_contracts |= again
            continue
        # ... and a function without contract whose very signature mentions a type left outside verification
        again2 = {t['fn'] for t in tool if t.get('compile') and t['fn'] in dropped_contracts and t['fn'] not in ext_fns}
        if again2:
            ext_fns |= again2
            continue
        if not hard and not comp:
            break
        forced |= hard | comp
    # A proof that is found under ANY solver seed is a proof: re-try every failing function in isolation with
    # other seeds and a larger resource limit before its failures are believed (guards against solver
    # instability, which would otherwise surface as a false alarm on code that was not even touched).
    retried = {}
    by_fn = {}
    for f in all_fail:
        if f['fn'] and not vrun.is_module_abort(f['msg']):
            by_fn.setdefault(f['fn'], []).append(f)
    rl_fns = sorted({t['fn'] for t in tool if t['fn'] and re.search(r'rlimit|Resource limit', t['msg'])})
    if 0 < len(by_fn) + len(rl_fns) <= 12:
        mod_result = {}
        for fn in sorted(set(by_fn) | set(rl_fns)):
            mod = fn.split('::')[0]
            if mod not in mod_result:
                mod_result[mod] = vrun.retry_function(b['text'], fn)
            ok_seed = mod_result[mod]
            retried[fn] = ok_seed
            if ok_seed is not None:
                all_fail = [f for f in all_fail if f['fn'] != fn]
                tool = [t for t in tool if t['fn'] != fn]
    return {'build': b, 'failures': all_fail, 'tool': tool + [t for t in tool_hist if t not in tool], 'res': res, 'forced': sorted(forced), 'retried': retried, 'dropped_ghost': sorted(dropped), 'dropped_contracts': sorted(dropped_contracts), 'external_items': sorted(ext_items), 'external_fns': sorted(ext_fns)}


def fn_results(res):
    out = {}
    try:
        for m in res['out']['times-ms']['smt']['smt-run-module-times']:
            for f in m.get('function-breakdown', []):
                name = f['function'].split('::', 1)[1]
                if 'VERUS_UNERASED_PROXY' in name:
                    continue
                out[name] = {'ms': f.get('time', 0), 'rlimit': f.get('rlimit', 0), 'ok': f.get('success', False), 'mode': f.get('mode:', '')}
    except Exception:
        pass
    return out


def check_c18(a, seed, t0):
    """C18 is decided by Kani alone (floating point; Verus has no f64): loop-free harness over the whole
    finite domain of the default-placement table."""
    import kani_c18
    pid = 'C18'
    try:
        r = kani_c18.run()
    except Exception as e:
        print('UNDECIDED property=C18 reason=kani run failed: %r' % e)
        return 2
    kani_undecided = False
    m = re.search(r'(\d+) of (\d+) failed', r.get('summary') or '')
    n_fail, n_all = (int(m.group(1)), int(m.group(2))) if m else (0, 0)
    rc = 0
    if not r['ok'] and not r['failed_checks']:
        print('UNDECIDED property=C18 reason=kani did not finish: %s' % (r['tail'][-300:].replace('\n', ' | ')))
        rc = 2
    elif not r['ok']:
        os.makedirs(os.path.join(VERIF, 'replays'), exist_ok=True)
        import hashlib
        path = os.path.join(VERIF, 'replays', 'C18-%s.json' % hashlib.sha1(''.join(r['failed_checks'] + r['replay']).encode()).hexdigest()[:12])
        json.dump({'property': pid, 'failed_obligations': r['failed_checks'], 'input': r['replay'], 'kani_cmd': r['cmd'], 'kani_output_tail': r['tail']}, open(path, 'w'), indent=1)
        for fc in r['failed_checks']:
            print('FAILED-OBLIGATION property=C18 kani::c18_default_frame_table :: %s' % fc)
        print('VIOLATION property=C18 replay=%s%s' % (path, '' if r['replay'] else ' no-failing-input-found'))
        rc = 1
    # bounded stand-in for SvgBuilder::image() (f64 arithmetic interleaved with string building: no contract can be
    # attached): default placement exhaustively + sampled overrides, read back from the SVG text via the public API
    nb = None
    try:
        import native
        nb = native.c18('thorough' if a.tier == 'thorough' else 'quick', seed)
    except Exception as e:
        print('NOTE property=C18 bounded native harness for SvgBuilder::image() unavailable: %s' % str(e)[:300])
    if rc == 2 and nb is not None and not nb['failures']:
        print('BOUNDED property=C18 Kani did not decide the default-placement table in this tree; bounded native harness: %d renderings (defaults exhaustive, overrides sampled), 0 failing cases' % nb['summary']['builds'])
        rc = 0
        kani_undecided = True
    if nb is not None and nb['failures']:
        import hashlib
        os.makedirs(os.path.join(VERIF, 'replays'), exist_ok=True)
        path = os.path.join(VERIF, 'replays', 'C18-native-%s.json' % hashlib.sha1(json.dumps(nb['failures'][0], sort_keys=True).encode()).hexdigest()[:12])
        json.dump({'property': pid, 'decided_by': 'bounded native harness (SvgBuilder::image() is outside the reach of contracts)',
                   'failed_obligations': [{'obligation': 'native::' + f['check'], 'message': f['detail']} for f in nb['failures']],
                   'input': nb['failures'][0]['case'], 'native_cmd': nb['cmd']}, open(path, 'w'), indent=1)
        for f in nb['failures'][:5]:
            print('FAILED-OBLIGATION property=C18 native::%s :: %s :: case %s' % (f['check'], f['detail'], json.dumps(f['case'])))
        if rc != 1:
            print('VIOLATION property=C18 replay=%s' % path)
        rc = 1
    ev = {'property_id': pid, 'tier': a.tier if a.tier in ('quick', 'thorough') else 'quick', 'seed': seed, 'level': 'exploration' if kani_undecided else 'proof',
          'coverage': {'rule': 'Kani: complete finite domain of image_placement; native harness: one rendering per (version, shape, margin) + sampled overrides, distinct by construction', 'samples': ['version 1..40 x {Square, Circle, RoundedSquare} x margin 0..16, default placement', 'sampled size/gap/position overrides'],
                       'bounded_stand_in_for_image_fn': ({'cmd': nb['cmd'], 'summary': nb['summary'], 'wall_s': nb['wall_s'],
                                                          'clauses': 'frame centred / module aligned / < 40% / clear of finders / monotone; image fits and is centred; requested size, gap (less at most one module), position honoured'} if nb is not None else None),
                       'evaluations': (nb['summary']['builds'] if nb is not None else 0) + max(n_all, 1), 'distinct_nontrivial': (nb['summary']['distinct_cases'] if nb is not None else 0) + 120,
                       'obligations': max(n_all, 1), 'discharged': (n_all - n_fail) if rc != 2 else 0, 'checker_cmd': r['cmd'] + '  (in a scratch copy of /repo with kani/c18_harness.rs appended to src/convert/svg.rs)',
                       'trusted_base': ['Kani 0.68 / CBMC 6.11 (IEEE-754 f64 semantics incl. round())', 'the harness module is appended text; no line of the repository is edited'],
                       'explanation': 'loop-free harness over v in 0..40 x 3 shapes with kani::any(): complete for the finite domain, not a bounded stand-in. Clauses about explicit size/gap/position overrides and the centring arithmetic inside SvgBuilder::image() are NOT covered (string-building function).',
                       'samples': ['c18_default_frame_table: odd whole frame >= 5; frame < 0.4 n; (n - frame)/2 >= 8; n - frame even; 1 <= image <= frame, whole; frame monotone in version'],
                       'exhaustive': True, 'functions_under_contract': ['convert::svg::SvgBuilder::image_placement']},
          'assumptions': ['only the default-placement table (image_placement) is PROVED; SvgBuilder::image() (centring, parity adjustment, overrides) is out of reach of contracts and covered by the BOUNDED native harness only'],
          'wall_s': round(time.time() - t0, 2), 'violations': 1 if rc == 1 else 0}
    evdir = os.environ.get('VERIF_EVIDENCE_DIR') or os.path.join(VERIF, 'evidence')
    os.makedirs(evdir, exist_ok=True)
    json.dump(ev, open(os.path.join(evdir, pid + '.json'), 'w'), indent=1)
    if rc == 0:
        print('OK property=C18 kani checks=%d failed=0' % n_all)
    return rc


def bounded_only(pid, a, seed, t0, reason):
    """The whole tree could not be brought before the verifier (extraction failed): the bounded native oracle is the
    only thing left; labelled bounded, evidence level exploration."""
    try:
        import native
        r = native.sweep([pid], 'thorough' if a.tier == 'thorough' else 'quick', seed)
    except Exception as e:
        print('UNDECIDED property=%s reason=%s; bounded native oracle unavailable: %s' % (pid, reason, str(e)[:200]))
        return 2
    nf = [f for f in r['failures'] if f['property'] == pid]
    rc = 0
    if nf:
        import hashlib
        os.makedirs(os.path.join(VERIF, 'replays'), exist_ok=True)
        path = os.path.join(VERIF, 'replays', '%s-native-%s.json' % (pid, hashlib.sha1(json.dumps(nf[0], sort_keys=True).encode()).hexdigest()[:12]))
        json.dump({'property': pid, 'decided_by': 'bounded native oracle (deductive check undecided: %s)' % reason,
                   'failed_obligations': [{'obligation': 'native::%s' % f['check'], 'message': f['detail']} for f in nf],
                   'input': {'case': nf[0]['case'], 'clause': nf[0]['check'], 'observed': nf[0]['detail'], 'reproduce_rust': native.rust_snippet(nf[0]['case'])},
                   'native_cmd': r['cmd'], 'bound': r['bound']}, open(path, 'w'), indent=1)
        for f in nf[:5]:
            print('FAILED-OBLIGATION property=%s native::%s :: %s' % (pid, f['check'], f['detail']))
        print('VIOLATION property=%s replay=%s' % (pid, path))
        rc = 1
    else:
        print('BOUNDED property=%s nothing could be verified deductively in this tree (%s); bounded native oracle: %s; 0 failing cases' % (pid, reason, r['bound']))
    ev = {'property_id': pid, 'tier': a.tier if a.tier in ('quick', 'thorough') else 'quick', 'seed': seed, 'level': 'exploration',
          'coverage': {'evaluations': r['summary'].get('builds', 0), 'distinct_nontrivial': r['summary'].get('distinct_cases', 0),
                       'rule': 'BOUNDED stand-in only (deductive check undecided: %s): %s' % (reason, r['bound']), 'samples': r['summary'].get('samples', [])[:5] or ['(none)'],
                       'obligations': 0, 'discharged': 0, 'checker_cmd': r['cmd']},
          'assumptions': ['no obligation was discharged in this run'], 'wall_s': round(time.time() - t0, 2), 'violations': len(nf)}
    evdir = os.environ.get('VERIF_EVIDENCE_DIR') or os.path.join(VERIF, 'evidence')
    os.makedirs(evdir, exist_ok=True)
    json.dump(ev, open(os.path.join(evdir, pid + '.json'), 'w'), indent=1)
    return rc


def main():
    ap = argparse.ArgumentParser()
    ap.add_argument('prop')
    ap.add_argument('--tier', default=os.environ.get('VERIF_TIER', 'quick'))
    ap.add_argument('--replay')
    a = ap.parse_args()
    pid = a.prop
    seed = int(os.environ.get('VERIF_SEED', '0') or 0)
    t0 = time.time()
    if a.replay:
        rep = json.load(open(a.replay))
        print(json.dumps(rep, indent=1)[:6000])
        inp = rep.get('input')
        if isinstance(inp, dict) and inp.get('case'):
            import native
            fl = native.replay_case(inp['case'])
            for f in fl:
                print('REPLAY-FAIL property=%s clause=%s :: %s' % (f['property'], f['check'], f['detail']))
            print('replayed against %s: %d failing clause(s)' % (vrun.REPO, len(fl)))
            return 1 if fl else 0
        return 0
    P = props.PROPS.get(pid)
    if P is None:
        print('unknown or unclaimed property %s' % pid)
        return 2
    if pid == 'C18':
        return check_c18(a, seed, t0)
    if pid in props.NEEDS_MODEL_FACTS:
        import model_facts
        if not model_facts.stamp_ok():
            print('model facts stamp missing or stale: running tools/model_facts.py')
            if not model_facts.run():
                print('UNDECIDED-BY-PROOF property=%s reason=model facts (verified executable checker) could not be established in this tree' % pid)
                return bounded_only(pid, a, seed, t0, 'model facts (verified executable checker) could not be established in this tree')
    try:
        V = verify_tree()
    except vrun.Undecided as e:
        print('UNDECIDED-BY-PROOF property=%s reason=%s' % (pid, e))
        return bounded_only(pid, a, seed, t0, str(e))
    b, fails, tool, res = V['build'], V['failures'], V['tool'], V['res']
    mine = []
    try:
        base_bodies = json.load(open(os.path.join(VERIF, 'contracts', 'baseline_bodies.json')))
    except Exception:
        base_bodies = {}
    def _bh(v, k):
        return v[k] if isinstance(v, list) else (v if k == 0 else None)
    edited = {fn for fn, h in b.get('bodies', {}).items() if _bh(base_bodies.get(fn), 0) != h[0]}
    # control/call skeleton differs from the baseline (restructured loops, new or removed callees): the contract's
    # proof text was written for another shape of the body
    reshaped = {fn for fn, h in b.get('bodies', {}).items() if fn in edited and _bh(base_bodies.get(fn), 1) != h[1]}
    # RESTRUCTURED: the skeleton changed by >= 8 tokens, or by >= 4 tokens and >= 30% of the body, or the function now
    # calls a function that did not exist / no longer calls one that was removed.  Small edits (a changed constant,
    # operator, bound, one added branch) are not restructurings.
    gone_fns = {fn.split('::')[-1] for fn in base_bodies if fn not in b.get('bodies', {})}
    restructured = set()
    shape_dist = {}
    for fn in reshaped:
        old_t = _bh(base_bodies.get(fn), 2) or []
        new_t = b['bodies'][fn][2]
        d_ = vrun.shape_distance(old_t, new_t)
        shape_dist[fn] = d_
        if d_ >= 8 or (d_ >= 4 and d_ * 10 >= 3 * max(1, len(old_t))) or any(t_[:-2] in gone_fns for t_ in old_t if t_.endswith('()')):
            restructured.add(fn)
    # a function of the current tree that did not exist when the contracts were written has no contract: its callers
    # know nothing about its result, so their obligations cannot be discharged whatever it computes
    new_fns = {fn.split('::')[-1] for fn in b.get('bodies', {}) if fn not in base_bodies}
    def calls_new_helper(fn):
        return bool(set(b.get('calls', {}).get(fn, [])) & new_fns)
    new_shape = []
    structural = []   # failures that leave P undecided by proof (bounded stand-in decides), never violations by themselves
    SEMANTIC = ('requires', 'ensures', 'const_ensures', 'closure_ensures', 'loop_ensures')
    for f in fails:
        dflt = list(props.fn_default_tags(b['contracts'], f['fn']) or [])
        sem, struct = set(), set()
        if f['kind'] != 'clause' and f.get('pragma'):
            # an obligation inside the ghost additions (lemmas relating the crate's tables/helpers to the model):
            # it states the properties named by the `//@tags` pragma of that spec region
            sem = set(f['pragma'])
        elif f['kind'] == 'clause' and f.get('explicit'):
            sem = set(f['tags'])                       # the clause names the properties it states
        elif f['kind'] == 'clause' and f.get('ckind') in SEMANTIC:
            # a pre/postcondition without tags of its own states the function's properties; possible panics are
            # C10's business only through safety obligations (a failed precondition leaves the callee's safety open)
            sem = (set(f['tags']) - {'C10'}) or set(f['tags'])
            if f.get('ckind') == 'requires':
                struct = {'C10'} - sem
        elif f['kind'] == 'clause' and f.get('ckind') in ('invariant', 'invariant_except_break') and not props.is_structural_text(f.get('ctext') or ''):
            # an untagged invariant that talks about the model (spec functions, quantified cell facts) states the
            # function's properties at every iteration
            sem = (set(f['tags']) - {'C10'}) or set(f['tags'])
            struct = {'C10'} - sem
        elif f['kind'] == 'clause' and not (f['fn'] in restructured or (f['fn'] in edited and calls_new_helper(f['fn']))):
            # scaffolding (arithmetic invariant / proof step) of a function whose body is the one the contract was
            # written for, or differs from it by a small edit only (a constant, a table entry, an operator): the proof
            # text fits, so this is an obligation that held on the unchanged tree and fails now
            sem = (set(f['tags']) - {'C10'}) or set(f['tags'])
            struct = {'C10'} - sem
        elif f['kind'] == 'clause':
            # purely arithmetic invariants (counter ranges, lengths) and contract-authored proof steps without tags
            # of their own, in a RESTRUCTURED function, are scaffolding shared by all properties of the function:
            # their failure leaves those properties UNDECIDED by proof (the bounded stand-in then decides)
            struct = set(f['tags'])
        elif f['kind'] == 'safety':
            if f['fn'] in edited and f.get('pragma') is None and (f['fn'] in restructured or calls_new_helper(f['fn'])):
                # a Verus-generated safety obligation inside a RESTRUCTURED function: this obligation did not exist (in
                # this form) on the unchanged tree, so its failure alone decides nothing.  After a small edit, a new
                # possible overflow / out-of-range index is taken at face value (C10)
                new_shape.append(f)
                struct = set(dflt) | {'C10'}
            else:
                # possible panic: C10 when the function is on the build path, else the property the function serves
                sem = {'C10'} if ('C10' in dflt or not dflt) else set(dflt)
                struct = set(dflt) - sem
        else:
            sem = ((set(dflt) | set(f.get('pragma') or [])) - {'C10'}) or {'C10'}
        if pid in sem:
            mine.append(f)
        elif pid in struct:
            structural.append(f)
        elif pid in dflt:
            # modular verification: callers were checked against this function's contract, so a failed obligation
            # in a function of this property's cone - even one that states another property - leaves this
            # property's own proof incomplete: undecided by proof, the bounded stand-in decides
            structural.append(dict(f, cone_only=True))
    # Arbiter: a failed clause that serves several properties (or sits in a function that does) is attributed by
    # the bounded native oracle when it can: if the oracle exhibits a failing input for ANOTHER property of the
    # same clause/function and none for this one, the failure is explained by that property and leaves this one
    # undecided-by-proof (bounded stand-in decides) instead of raising a second, unconfirmed alarm.
    confirmed = None
    if mine:
        try:
            import native
            nr_all = native.sweep(native.PROPS, 'quick', 0)
            confirmed = {k for k, v in nr_all['summary'].get('per_property', {}).items() if v}
        except Exception as e:
            print('native arbiter unavailable: %s' % e)
    if confirmed and pid not in confirmed and pid in getattr(__import__('native'), 'PROPS', []):
        keep = []
        for f in mine:
            others = (set(f.get('tags') or []) | set(props.fn_default_tags(b['contracts'], f['fn']) or [])) - {pid, 'C10'}
            expl = sorted(others & confirmed)
            if expl:
                f = dict(f, explained_by=expl)
                structural.append(f)
                print('NOTE property=%s failed obligation %s is explained by the confirmed violation of %s (failing input found for it, none for %s)' % (pid, f.get('oid') or f['fn'], ','.join(expl), pid))
            else:
                keep.append(f)
        mine = keep
    # Restructured functions (see `restructured` above) and functions calling a new helper that has no contract: a
    # failed obligation there first of all says that the proof text no longer fits the body - "a failed proof means
    # undecided".  If the native oracle exhibits no failing input for this property, such a failure leaves it
    # undecided by proof (bounded stand-in decides) instead of raising an unconfirmed alarm.  Every other failed
    # semantic obligation - in particular after a small edit - stays a violation (no-failing-input-found when the
    # corpus has no witness).
    if confirmed is not None and pid not in confirmed and mine:
        keep = []
        for f in mine:
            if f['fn'] in edited and (calls_new_helper(f['fn']) or f['fn'] in restructured):
                structural.append(dict(f, reshaped=True))
                print('NOTE property=%s obligation %s failed in the restructured function %s (skeleton distance %s, new callees: %s) and no failing input exists in the corpus: undecided by proof' % (pid, f.get('oid') or f['msg'], f['fn'], shape_dist.get(f['fn']), ','.join(sorted(set(b.get('calls', {}).get(f['fn'], [])) & new_fns)) or '-'))
            else:
                keep.append(f)
        mine = keep
    # obligations of this property
    clauses = [c for c in b['registry'] if pid in c.tags]
    fr0 = fn_results(res)

    class _FR(dict):
        pass
    fr = {}
    def _norm(n):
        parts = re.split(r'::(?![^<]*>)', n)
        return '::'.join([parts[0], parts[1], parts[3]]) if len(parts) == 4 else n
    for c in b['contracts']:
        if _norm(c.name) in fr0:
            fr[c.name] = fr0[_norm(c.name)]
    for k_, v_ in fr0.items():
        fr.setdefault(k_, v_)
    cone_fns = sorted({c.fn for c in clauses} | {c.name for c in b['contracts'] if pid in c.tags})
    # ghost lemmas of the model / of the ghost additions whose `//@tags` pragma names this property
    model_lemmas = []
    try:
        _cr, _fr, tag_ranges = vrun.line_index(b['text'])
        tlines = b['text'].split('\n')
        decl = {}
        for i_, l_ in enumerate(tlines, 1):
            m_ = re.match(r'\s*(?:pub\s+)?(?:broadcast\s+)?proof fn (\w+)', l_)
            if m_:
                decl.setdefault(m_.group(1), []).append(i_)
        for name_, v_ in fr0.items():
            short = name_.split('::')[-1]
            for ln_ in decl.get(short, [])[:1]:
                tg = next((t_ for a_, b_, t_ in tag_ranges if a_ <= ln_ <= b_), None)
                if tg and pid in tg and v_.get('ok'):
                    model_lemmas.append({'lemma': name_, 'ms': v_.get('ms', 0)})
    except Exception:
        model_lemmas = []
    assumed = [(c.name, c.assumed) for c in b['contracts'] if c.assumed and (pid in c.tags or any(pid in cl.tags for cl in c.requires + c.ensures))]
    lost_here = [(n_, w_) for n_, w_ in b.get('lost', []) if n_ in cone_fns]
    assumed = [x for x in assumed if not x[1].startswith('LOST ANCHOR')]
    unchecked = [f for f in cone_fns if f not in fr and f not in [x[0] for x in assumed]]
    unchecked += ['%s (%s)' % lw for lw in lost_here if lw[0] not in unchecked]
    for f in structural:
        tool.append({'msg': ('obligation failed in a function that calls a new helper without contract, no failing input in the corpus: ' if f.get('reshaped') else 'a contract clause of another property failed in a function this property relies on: ' if f.get('cone_only') or f.get('explained_by') else 'new safety obligation in edited function not discharged: ' if f in new_shape else 'proof scaffolding (untagged invariant / proof step / safety side-condition) not discharged: ') + (f['oid'] or '') + ' ' + f['msg'], 'fn': f['fn'], 'line': f['line'], 'compile': False})
    forced_fns = set(V['forced'])
    unchecked += [f for f in cone_fns if f in forced_fns and f not in unchecked]
    tool_mine = [t for t in tool if t['fn'] is None or t['fn'] in cone_fns or t['fn'] not in {c_.name for c_ in b['contracts']}]
    scan_hits = []
    if pid == 'C14':
        scan_hits = props.scan_hidden_state(vrun.REPO)
        for h in scan_hits:
            tool_mine.append({'msg': 'hidden-state scan hit (needs review, not decided by contracts): ' + h, 'fn': None, 'line': 0, 'compile': False})
    known, fixed = load_known()
    violations, known_hits = [], []
    for f in mine:
        k = failure_key(f)
        hit = [kf for kf in known if kf['property'] == pid and kf['obligation'] == k and kf['site'] in (f['fn'] or '')]
        (known_hits if hit else violations).append((k, f))
    rc = 0
    replay_path = None
    for k, f in known_hits:
        print('KNOWN-FINDING: property=%s %s at %s (%s)' % (pid, k, f['fn'], f['msg']))
    if violations:
        os.makedirs(os.path.join(VERIF, 'replays'), exist_ok=True)
        replay_path = os.path.join(VERIF, 'replays', '%s-%s.json' % (pid, res['hash'][:12]))
        rep = {'property': pid, 'failed_obligations': [
            {'obligation': k, 'function': f['fn'], 'message': f['msg'], 'generated_line': f['line'], 'verus_output': f['rendered']}
            for k, f in violations], 'verus_cmd': res['cmd'], 'input': None,
            'note': 'Verus gives no counterexample; see replay search result below'}
        found = None
        try:
            import replay
            found = replay.search(pid, violations, rep)
        except Exception as e:  # replay search only decorates a report
            rep['replay_search_error'] = repr(e)
        rep['input'] = found
        with open(replay_path, 'w') as fh:
            json.dump(rep, fh, indent=1)
        for k, f in violations:
            print('FAILED-OBLIGATION property=%s %s :: %s' % (pid, k, f['msg']))
        print('VIOLATION property=%s replay=%s%s' % (pid, replay_path, '' if found else ' no-failing-input-found'))
        rc = 1
    elif tool_mine or unchecked:
        for t in tool_mine[:10]:
            print('UNDECIDED-BY-PROOF property=%s reason=%s (line %s, fn %s)' % (pid, t['msg'], t['line'], t['fn']))
        for u in unchecked[:10]:
            print('UNDECIDED-BY-PROOF property=%s reason=function %s was not checked by the verifier' % (pid, u))
        rc = 2
    c17 = None
    if pid == 'C17':
        # clauses no contract can reach (colour-string parsing, SVG text): bounded stand-in on the real wasm.rs,
        # compiled natively in a scratch copy (labelled bounded, never counted as proved)
        try:
            import native_c17
            c17 = native_c17.run()
        except Exception as e:
            c17 = {'ok': None, 'reason': repr(e), 'failures': [], 'cmd': '', 'evaluations': 0}
        if c17['ok'] is False:
            known_c17 = [kf for kf in known if kf['property'] == 'C17' and kf['obligation'].startswith('native::')]
            new_f = [f for f in c17['failures'] if not any(kf['obligation'] == 'native::' + f.split(' :: ')[0] and kf['site'] in f for kf in known_c17)]
            for kf in known_c17:
                if any(kf['obligation'] == 'native::' + f.split(' :: ')[0] and kf['site'] in f for f in c17['failures']):
                    print('KNOWN-FINDING: property=C17 %s %s %s' % (kf['obligation'], kf['site'], kf['what']))
            if new_f:
                os.makedirs(os.path.join(VERIF, 'replays'), exist_ok=True)
                import hashlib
                replay_path = os.path.join(VERIF, 'replays', 'C17-native-%s.json' % hashlib.sha1(new_f[0].encode()).hexdigest()[:12])
                json.dump({'property': 'C17', 'decided_by': 'bounded native harness native/c17_harness.rs on the real wasm.rs (scratch copy)',
                           'failed_obligations': [{'obligation': 'native::' + f.split(' :: ')[0], 'message': f.split(' :: ', 1)[1]} for f in new_f[:20]],
                           'input': {'clause': new_f[0].split(' :: ')[0], 'observed': new_f[0].split(' :: ', 1)[1]}, 'native_cmd': c17['cmd']}, open(replay_path, 'w'), indent=1)
                for f in new_f[:5]:
                    print('FAILED-OBLIGATION property=C17 native::%s' % f)
                if rc == 1:
                    print('NOTE property=C17 failing input found by the bounded native harness: replay=%s' % replay_path)
                else:
                    print('VIOLATION property=C17 replay=%s' % replay_path)
                    violations = [('native::' + f.split(' :: ')[0], {'fn': None, 'msg': f}) for f in new_f]
                rc = 1
        elif c17['ok'] is None:
            print('NOTE property=C17 bounded native harness unavailable in this tree: %s' % c17.get('reason'))
        elif rc == 2:
            print('BOUNDED property=C17 the functions listed above are covered only by the bounded native harness in this tree (%d evaluations on the real wasm.rs: colour strings, option arrays, matrix and SVG equality); 0 failing cases' % c17.get('evaluations', 0))
            rc = 0
    thorough = None
    if rc == 0 and a.tier == 'thorough':
        # (1) vacuity guard: `assert(false)` injected at the entry of every verified function and at the top of
        #     every loop body must FAIL everywhere (a site that verifies = contradictory requires/invariant);
        # (2) proof stability: the whole crate under two further SMT seeds
        import vacuity
        thorough = {}
        try:
            vr = vacuity.run()
            mine_v = [x for x in vr['not_refuted'] if any(x.startswith(f) for f in cone_fns)]
            thorough['vacuity'] = {'injected': vr['injected'], 'refuted': vr['refuted'], 'not_refuted_in_cone': mine_v}
            if mine_v:
                for x in mine_v[:5]:
                    print('UNDECIDED property=%s reason=vacuity guard: injected assert(false) verified at %s (contradictory precondition or invariant)' % (pid, x))
                rc = 2
        except Exception as e:
            thorough['vacuity'] = 'failed to run: %r' % e
        st = {}
        for sd in (11, 12):
            r2 = vrun.run_verus(b['text'], extra_args=['--smt-option', 'smt.random_seed=%d' % sd], tag='stab')
            f2, t2 = vrun.classify(r2, b['text'], b['registry'])
            st['seed %d' % sd] = {'failed_in_cone': sorted({f['fn'] for f in f2 if f['fn'] in cone_fns}), 'rlimit_in_cone': sorted({t['fn'] for t in t2 if t['fn'] in cone_fns}), 'wall_s': round(r2.get('wall_s') or 0, 1), 'cached': r2.get('cached', False)}
        thorough['other_solver_seeds'] = st
    bounded = None
    if rc == 2 or (rc == 0 and a.tier == 'thorough'):
        # bounded stand-in (labelled, never counted as proved): the native oracle on its deterministic corpus
        try:
            import native
            bounded = native.sweep([pid], 'thorough' if a.tier == 'thorough' else 'quick', seed)
        except Exception as e:
            bounded = None
            print('native bounded oracle unavailable: %s' % e)
        if bounded is not None:
            nf = [f for f in bounded['failures'] if f['property'] == pid]
            if nf:
                os.makedirs(os.path.join(VERIF, 'replays'), exist_ok=True)
                import hashlib
                replay_path = os.path.join(VERIF, 'replays', '%s-native-%s.json' % (pid, hashlib.sha1(json.dumps(nf[0], sort_keys=True).encode()).hexdigest()[:12]))
                json.dump({'property': pid, 'decided_by': 'bounded native oracle (deductive check %s)' % ('undecided for: ' + '; '.join([t['msg'] for t in tool_mine[:5]] + unchecked[:5]) if rc == 2 else 'passed'),
                           'failed_obligations': [{'obligation': 'native::%s' % f['check'], 'message': f['detail']} for f in nf],
                           'input': {'case': nf[0]['case'], 'clause': nf[0]['check'], 'observed': nf[0]['detail'], 'reproduce_rust': native.rust_snippet(nf[0]['case'])},
                           'native_cmd': bounded['cmd'], 'bound': bounded['bound']}, open(replay_path, 'w'), indent=1)
                for f in nf[:5]:
                    print('FAILED-OBLIGATION property=%s native::%s :: %s :: case %s' % (pid, f['check'], f['detail'], json.dumps(f['case'])[:200]))
                print('VIOLATION property=%s replay=%s' % (pid, replay_path))
                violations = [('native::' + f['check'], {'fn': None, 'msg': f['detail']}) for f in nf]
                rc = 1
            elif rc == 2:
                print('BOUNDED property=%s the functions listed above are covered only by the bounded native oracle in this tree: %s; 0 failing cases' % (pid, bounded['bound']))
                rc = 0
    # evidence
    n_ob = len(clauses) + len(cone_fns) + len(model_lemmas)
    failed_keys = {k for k, _ in violations} | {k for k, _ in known_hits}
    n_failed = len(failed_keys)
    und_fns = {t['fn'] for t in tool_mine if t['fn']} | {u.split(' ')[0] for u in unchecked}
    proof_undecided = bool(tool_mine or unchecked)
    if not proof_undecided:
        n_discharged = max(0, n_ob - n_failed)
    elif any(t['fn'] is None for t in tool_mine):
        n_discharged = 0
    else:
        n_discharged = max(0, len([c for c in clauses if c.fn not in und_fns]) + len([f for f in cone_fns if f not in und_fns]) - n_failed)
    ev = {
        'property_id': pid, 'tier': a.tier if a.tier in ('quick', 'thorough') else 'quick', 'seed': seed,
        # a run in which the deductive check could not decide part of the cone is NOT reported at proof level
        'level': ('exploration' if proof_undecided else props.MANIFEST_META.get(pid, {}).get('category', 'proof')),
        'coverage': {
            **({'evaluations': bounded['summary'].get('builds', 0), 'distinct_nontrivial': bounded['summary'].get('distinct_cases', 0),
                'rule': 'BOUNDED stand-in (never counted as proved): ' + bounded['bound'] + '; a case is one (payload, level, version, mask, mode) tuple, distinct by that tuple; every case is a full build checked clause by clause against the plain-Rust transcription of the ISO model'} if bounded is not None else {}),
            'thorough_extras': thorough,
            'c17_bounded_native_harness': c17,
            'bounded_stand_in': ({'used_because': [t['msg'] + ' @' + str(t['fn']) for t in tool_mine[:10]] + unchecked[:10], 'cmd': bounded['cmd'], 'bound': bounded['bound'], 'summary': bounded['summary'], 'wall_s': bounded['wall_s'], 'cached': bounded['cached']} if bounded is not None else None),
            'obligations': n_ob, 'discharged': n_discharged,
            'checker_cmd': res['cmd'],
            'trusted_base': props.trusted_base(b),
            'explanation': 'obligations = tagged contract clauses (%d) + verified function bodies incl. Verus-generated safety/termination obligations (%d) + verified ghost lemmas of the model tagged with this property (%d)' % (len(clauses), len(cone_fns), len(model_lemmas)),
            'model_lemmas_verified': model_lemmas,
            'functions_under_contract': [{'fn': f, **fr.get(f, {'ok': None})} for f in cone_fns],
            'assumed_contracts_not_proved': [{'fn': n, 'reason': r} for n, r in assumed],
            'back_end': vrun.verus_version(),
            'solver_ms_total': sum(v['ms'] for k, v in fr.items() if k in cone_fns),
            'samples': [c.oid for c in clauses[:8]] + (bounded['summary'].get('samples', []) if bounded is not None else []),
            'extraction_log': b['logs'],
            'unchecked_functions': unchecked, 'tool_limits': [t['msg'] + ' @' + str(t['fn']) for t in tool_mine[:20]],
            'known_findings_hit': [k for k, _ in known_hits],
            'hidden_state_scan': ('clean: no static mut / interior mutability / globals / time / randomness / unsafe in src (excluding src/tests)' if pid == 'C14' and not scan_hits else scan_hits),
            'verus_run_cached': res.get('cached', False), 'verus_wall_s': res.get('wall_s'),
            'forced_assumed_after_module_abort': V['forced'],
            'contracts_dropped_because_the_signature_changed': V.get('dropped_contracts', []),
            'ghost_items_dropped_because_they_no_longer_compile': ['%s: %s' % d_ for d_ in V.get('dropped_ghost', [])],
            'module_level_items_left_outside_verification': ['%s: %s' % d_ for d_ in V.get('external_items', [])],
            'failing_functions_retried_with_other_seeds': {k_: ('discharged with seed %s' % v_ if v_ is not None else 'still failing') for k_, v_ in V.get('retried', {}).items()},
        },
        'assumptions': props.assumptions(b, pid),
        'wall_s': round(time.time() - t0, 2),
        'violations': len(violations),
    }
    evdir = os.environ.get('VERIF_EVIDENCE_DIR') or os.path.join(VERIF, 'evidence')
    os.makedirs(evdir, exist_ok=True)
    with open(os.path.join(evdir, pid + '.json'), 'w') as fh:
        json.dump(ev, fh, indent=1)
    if rc == 0 and proof_undecided:
        print('OK-BOUNDED property=%s obligations=%d discharged-by-proof=%d; the rest of the cone is covered by the bounded stand-in only (evidence level: exploration)' % (pid, n_ob, n_discharged))
    elif rc == 0:
        print('OK property=%s obligations=%d discharged=%d functions=%d assumed=%d' % (pid, n_ob, n_ob - n_failed, len(cone_fns), len(assumed)))
    return rc


def guarded_main():
    """An internal error of the machinery is a tool limit, never a verdict: exit 2 (or the bounded stand-in),
    and never a VIOLATION line."""
    try:
        return main()
    except SystemExit:
        raise
    except BaseException as e:   # noqa: BLE001
        import traceback
        tb = traceback.format_exc()
        sys.stderr.write(tb)
        pid = next((x for x in sys.argv[1:] if re.fullmatch(r'C\d\d', x)), '?')
        print('UNDECIDED-BY-PROOF property=%s reason=internal error of the verification machinery: %r' % (pid, e))
        try:
            class _A:
                tier = 'thorough' if 'thorough' in sys.argv else 'quick'
            if pid in props.PROPS:
                import native
                if pid in native.PROPS:
                    return bounded_only(pid, _A, int(os.environ.get('VERIF_SEED', '0') or 0), time.time(), 'internal error: %r' % e)
        except BaseException as e2:   # noqa: BLE001
            print('bounded stand-in failed as well: %r' % e2)
        return 2


if __name__ == '__main__':
    sys.exit(guarded_main())
