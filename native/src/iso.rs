//! Plain-Rust transcription of the ISO model in /verif/spec/iso_*.vrs (same definitions, same names where
//! possible), used ONLY by the bounded native oracle: a bounded stand-in where the deductive verifier cannot
//! reach a restructured function, and the search for a concrete failing input after a failed obligation.
//! v is 0-based (V01 == 0), l = 0..3 (L, M, Q, H), mode = 0..2 (Numeric, Alphanumeric, Byte).
use crate::tables::*;

pub const NUM: usize = 0;
pub const ALNUM: usize = 1;
pub const BYTE: usize = 2;

// ---- iso_core ------------------------------------------------------------------------------------------------
pub fn cci_bits(v: usize, mode: usize) -> usize {
    match mode {
        NUM => if v <= 8 { 10 } else if v <= 25 { 12 } else { 14 },
        ALNUM => if v <= 8 { 9 } else if v <= 25 { 11 } else { 13 },
        _ => if v <= 8 { 8 } else { 16 },
    }
}

pub fn payload_bits(mode: usize, len: usize) -> usize {
    match mode {
        NUM => 10 * (len / 3) + [0, 4, 7][len % 3],
        ALNUM => 11 * (len / 2) + 6 * (len % 2),
        _ => 8 * len,
    }
}

pub fn side(v: usize) -> usize { 21 + 4 * v }

pub fn raw_modules(v: usize) -> usize {
    let ver = v + 1;
    let s = 17 + 4 * ver;
    let na = if ver == 1 { 0 } else { ver / 7 + 2 };
    let aligns = if ver == 1 { 0 } else { na * na - 3 };
    let on_timing = if ver == 1 { 0 } else { 2 * (na - 2) };
    s * s - 3 * 64 - 2 * (s - 16) - 31 - (if ver >= 7 { 36 } else { 0 }) - 25 * aligns + 5 * on_timing
}

pub fn total_codewords(v: usize) -> usize { raw_modules(v) / 8 }
pub fn remainder_bits(v: usize) -> usize { raw_modules(v) % 8 }
pub fn blocks(v: usize, l: usize) -> usize { G1_COUNT[v][l] + G2_COUNT[v][l] }
pub fn data_codewords(v: usize, l: usize) -> usize { G1_COUNT[v][l] * G1_SIZE[v][l] + G2_COUNT[v][l] * G2_SIZE[v][l] }

pub fn fits(v: usize, mode: usize, l: usize, len: usize) -> bool {
    4 + cci_bits(v, mode) + payload_bits(mode, len) <= 8 * data_codewords(v, l)
}

pub fn smallest_version(mode: usize, l: usize, len: usize) -> Option<usize> { (0..40).find(|&v| fits(v, mode, l, len)) }

/// largest length that fits version v
pub fn max_len(v: usize, mode: usize, l: usize) -> usize {
    let mut n = 0;
    while fits(v, mode, l, n + 1) { n += 1; }
    n
}

fn gf2_rem(mut r: u32, g: u32, d: u32, top: u32) -> u32 {
    let mut i = top;
    loop {
        if i < d { return r; }
        if (r >> i) & 1 == 1 { r ^= g << (i - d); }
        if i == 0 { return r; }
        i -= 1;
    }
}

pub fn version_info(ver: u32) -> u32 { (ver << 12) | gf2_rem(ver << 12, 0x1F25, 12, 17) }

pub fn format_info(l: usize, mask: u32) -> u32 {
    let lb = [1u32, 0, 3, 2][l];
    let d = (lb << 3) | mask;
    ((d << 10) | gf2_rem(d << 10, 0x537, 10, 14)) ^ 0x5412
}

pub fn mask_bit(k: usize, y: usize, x: usize) -> bool {
    match k {
        0 => (y + x) % 2 == 0,
        1 => y % 2 == 0,
        2 => x % 3 == 0,
        3 => (y + x) % 3 == 0,
        4 => (y / 2 + x / 3) % 2 == 0,
        5 => (y * x) % 2 + (y * x) % 3 == 0,
        6 => ((y * x) % 2 + (y * x) % 3) % 2 == 0,
        _ => ((y + x) % 2 + (y * x) % 3) % 2 == 0,
    }
}

// ---- iso_encode ----------------------------------------------------------------------------------------------
pub fn is_digit(c: u8) -> bool { (48..=57).contains(&c) }

pub fn alnum45(c: u8) -> bool {
    (48..=57).contains(&c) || (65..=90).contains(&c) || [32u8, 36, 37, 42, 43, 45, 46, 47, 58].contains(&c)
}

pub fn alnum_value(c: u8) -> usize {
    if (48..=57).contains(&c) { (c - 48) as usize } else if (65..=90).contains(&c) { (c - 65 + 10) as usize } else {
        match c { 32 => 36, 36 => 37, 37 => 38, 42 => 39, 43 => 40, 45 => 41, 46 => 42, 47 => 43, _ => 44 }
    }
}

pub fn best_mode(s: &[u8]) -> usize {
    if s.iter().all(|&c| is_digit(c)) { NUM } else if s.iter().all(|&c| alnum45(c)) { ALNUM } else { BYTE }
}

pub fn mode_accepts(mode: usize, s: &[u8]) -> bool {
    match mode { NUM => s.iter().all(|&c| is_digit(c)), ALNUM => s.iter().all(|&c| alnum45(c)), _ => true }
}

fn push_bits(out: &mut Vec<bool>, v: usize, n: usize) {
    for i in (0..n).rev() { out.push((v >> i) & 1 == 1); }
}

/// 7.4: mode indicator, character count, payload, terminator, byte alignment, pad codewords up to the capacity.
pub fn data_codeword_seq(input: &[u8], mode: usize, v: usize, l: usize) -> Vec<u8> {
    let mut b: Vec<bool> = Vec::new();
    push_bits(&mut b, [1, 2, 4][mode], 4);
    push_bits(&mut b, input.len(), cci_bits(v, mode));
    match mode {
        NUM => {
            for ch in input.chunks(3) {
                let val = ch.iter().fold(0usize, |a, &c| a * 10 + (c - 48) as usize);
                push_bits(&mut b, val, [0, 4, 7, 10][ch.len()]);
            }
        }
        ALNUM => {
            for ch in input.chunks(2) {
                if ch.len() == 2 { push_bits(&mut b, 45 * alnum_value(ch[0]) + alnum_value(ch[1]), 11); } else { push_bits(&mut b, alnum_value(ch[0]), 6); }
            }
        }
        _ => { for &c in input { push_bits(&mut b, c as usize, 8); } }
    }
    let cap = 8 * data_codewords(v, l);
    assert!(b.len() <= cap, "oracle called with an input that does not fit");
    let term = core::cmp::min(4, cap - b.len());
    push_bits(&mut b, 0, term);
    while b.len() % 8 != 0 { b.push(false); }
    let mut out: Vec<u8> = b.chunks(8).map(|c| c.iter().fold(0u8, |a, &x| (a << 1) | x as u8)).collect();
    let mut k = 0;
    while out.len() < cap / 8 { out.push(if k % 2 == 0 { 0xEC } else { 0x11 }); k += 1; }
    out
}

// ---- iso_gf --------------------------------------------------------------------------------------------------
pub fn gf_xtime(a: u8) -> u8 { if a & 0x80 != 0 { (a << 1) ^ 0x1D } else { a << 1 } }

pub fn gf_mul(a: u8, b: u8) -> u8 {
    // shift-and-add
    let (mut r, mut a, mut b) = (0u8, a, b);
    while b != 0 { if b & 1 != 0 { r ^= a; } a = gf_xtime(a); b >>= 1; }
    r
}

pub fn gf_exp(k: usize) -> u8 { let mut r = 1u8; for _ in 0..k { r = gf_xtime(r); } r }

/// coefficients of prod_{i<ec}(x - alpha^i), highest degree first (leading 1 included)
pub fn gen_poly(ec: usize) -> Vec<u8> {
    let mut g = vec![1u8];
    for i in 0..ec {
        let a = gf_exp(i);
        let mut n = vec![0u8; g.len() + 1];
        for (k, &c) in g.iter().enumerate() { n[k] ^= c; n[k + 1] ^= gf_mul(c, a); }
        g = n;
    }
    g
}

/// remainder of data(x) * x^ec divided by gen_poly(ec)
pub fn rs_remainder(data: &[u8], ec: usize) -> Vec<u8> {
    let g = gen_poly(ec);
    let mut buf: Vec<u8> = data.to_vec();
    buf.extend(core::iter::repeat(0).take(ec));
    for i in 0..data.len() {
        let c = buf[i];
        if c != 0 { for k in 0..g.len() { buf[i + k] ^= gf_mul(g[k], c); } }
    }
    buf[data.len()..].to_vec()
}

// ---- iso_blocks ----------------------------------------------------------------------------------------------
pub fn block_sizes(v: usize, l: usize) -> Vec<usize> {
    let mut s = vec![G1_SIZE[v][l]; G1_COUNT[v][l]];
    s.extend(vec![G2_SIZE[v][l]; G2_COUNT[v][l]]);
    s
}

/// data codewords -> final interleaved sequence (data interleaved, then EC interleaved)
pub fn final_codewords(data: &[u8], v: usize, l: usize) -> Vec<u8> {
    let sizes = block_sizes(v, l);
    let ec = EC_PER_BLOCK[v][l];
    let mut blocks_d: Vec<&[u8]> = Vec::new();
    let mut off = 0;
    for &s in &sizes { blocks_d.push(&data[off..off + s]); off += s; }
    let blocks_e: Vec<Vec<u8>> = blocks_d.iter().map(|d| rs_remainder(d, ec)).collect();
    let mut out = Vec::new();
    let maxd = *sizes.iter().max().unwrap();
    for i in 0..maxd { for b in &blocks_d { if i < b.len() { out.push(b[i]); } } }
    for i in 0..ec { for b in &blocks_e { out.push(b[i]); } }
    out
}

/// inverse of the interleave: (data per block, ec per block)
pub fn deinterleave(cw: &[u8], v: usize, l: usize) -> (Vec<Vec<u8>>, Vec<Vec<u8>>) {
    let sizes = block_sizes(v, l);
    let ec = EC_PER_BLOCK[v][l];
    let mut d: Vec<Vec<u8>> = sizes.iter().map(|_| Vec::new()).collect();
    let mut e: Vec<Vec<u8>> = sizes.iter().map(|_| Vec::new()).collect();
    let maxd = *sizes.iter().max().unwrap();
    let mut k = 0;
    for i in 0..maxd { for (b, &s) in sizes.iter().enumerate() { if i < s { d[b].push(cw[k]); k += 1; } } }
    for _ in 0..ec { for b in 0..sizes.len() { e[b].push(cw[k]); k += 1; } }
    (d, e)
}

// ---- iso_layout ----------------------------------------------------------------------------------------------
#[derive(Clone, Copy, PartialEq, Eq, Debug)]
#[repr(u8)]
pub enum Region { Data = 0, Finder = 1, Alignment = 2, Timing = 3, Format = 4, Version = 5, Dark = 6, Empty = 7 }

fn in_finder(n: usize, y: usize, x: usize) -> bool { (y < 7 && x < 7) || (y < 7 && x >= n - 7) || (y >= n - 7 && x < 7) }

fn finder_dark(n: usize, y: usize, x: usize) -> bool {
    let dy = if y < 7 { y } else { y - (n - 7) } as i64;
    let dx = if x < 7 { x } else { x - (n - 7) } as i64;
    core::cmp::max((dy - 3).abs(), (dx - 3).abs()) != 2
}

fn in_separator(n: usize, y: usize, x: usize) -> bool {
    ((y < 8 && x < 8) || (y < 8 && x >= n - 8) || (y >= n - 8 && x < 8)) && !in_finder(n, y, x)
}

fn in_timing(n: usize, y: usize, x: usize) -> bool { (y == 6 && 8 <= x && x < n - 8) || (x == 6 && 8 <= y && y < n - 8) }
fn timing_dark(y: usize, x: usize) -> bool { if y == 6 { x % 2 == 0 } else { y % 2 == 0 } }

/// bit index 0..14 of the format cell at (y, x), both copies
pub fn format_bit_index(n: usize, y: usize, x: usize) -> Option<usize> {
    if x == 8 && y <= 5 { Some(y) }
    else if x == 8 && y == 7 { Some(6) }
    else if x == 8 && y == 8 { Some(7) }
    else if y == 8 && x == 7 { Some(8) }
    else if y == 8 && x <= 5 { Some(14 - x) }
    else if y == 8 && x >= n - 8 { Some(n - 1 - x) }
    else if x == 8 && y >= n - 7 { Some(y + 15 - n) }
    else { None }
}

pub fn version_bit_index(v: usize, y: usize, x: usize) -> Option<usize> {
    let n = side(v);
    if v < 6 { None }
    else if y < 6 && x >= n - 11 && x < n - 8 { Some(3 * y + (x - (n - 11))) }
    else if x < 6 && y >= n - 11 && y < n - 8 { Some(3 * x + (y - (n - 11))) }
    else { None }
}

fn align_idx(v: usize, c: usize) -> Option<usize> {
    let a = ALIGN[v];
    (0..a.len()).rev().find(|&k| (c as i64 - a[k] as i64).abs() <= 2)
}

fn align_pair_used(v: usize, i: usize, j: usize) -> bool {
    let m = ALIGN[v].len() - 1;
    !((i == 0 && j == 0) || (i == 0 && j == m) || (i == m && j == 0))
}

fn in_alignment(v: usize, y: usize, x: usize) -> bool {
    match (align_idx(v, y), align_idx(v, x)) { (Some(i), Some(j)) => align_pair_used(v, i, j), _ => false }
}

fn alignment_dark(v: usize, y: usize, x: usize) -> bool {
    let cy = ALIGN[v][align_idx(v, y).unwrap()] as i64;
    let cx = ALIGN[v][align_idx(v, x).unwrap()] as i64;
    core::cmp::max((y as i64 - cy).abs(), (x as i64 - cx).abs()) != 1
}

pub fn region(v: usize, y: usize, x: usize) -> Region {
    let n = side(v);
    if in_finder(n, y, x) { Region::Finder }
    else if in_separator(n, y, x) { Region::Empty }
    else if y == n - 8 && x == 8 { Region::Dark }
    else if format_bit_index(n, y, x).is_some() { Region::Format }
    else if version_bit_index(v, y, x).is_some() { Region::Version }
    else if in_alignment(v, y, x) { Region::Alignment }
    else if in_timing(n, y, x) { Region::Timing }
    else { Region::Data }
}

/// value of a function module (not Format, not Data)
pub fn function_dark(v: usize, y: usize, x: usize) -> bool {
    let n = side(v);
    match region(v, y, x) {
        Region::Finder => finder_dark(n, y, x),
        Region::Empty => false,
        Region::Dark => true,
        Region::Alignment => alignment_dark(v, y, x),
        Region::Timing => timing_dark(y, x),
        Region::Version => (version_info(v as u32 + 1) >> version_bit_index(v, y, x).unwrap()) & 1 == 1,
        _ => false,
    }
}

/// 7.7.3: the encoding-region modules in placement order
pub fn zigzag(v: usize) -> Vec<(usize, usize)> {
    let n = side(v);
    let mut out = Vec::new();
    let strips = (n - 1) / 2;
    for p in 0..strips {
        let col = if p < (n - 7) / 2 { n - 1 - 2 * p } else { n - 2 - 2 * p };
        let up = p % 2 == 0;
        for t in 0..2 * n {
            let y = if up { n - 1 - t / 2 } else { t / 2 };
            let x = col - t % 2;
            if region(v, y, x) == Region::Data { out.push((y, x)); }
        }
    }
    out
}

// ---- iso_penalty (Data modules only take part; anything else breaks runs and windows) ---------------------------
/// line of (is_data, value)
pub fn line_penalty(l: &[(bool, bool)]) -> u32 {
    let mut p = 0u32;
    let n = l.len();
    let mut i = 0;
    while i < n {
        if !l[i].0 { i += 1; continue; }
        let mut j = i;
        while j + 1 < n && l[j + 1].0 && l[j + 1].1 == l[i].1 { j += 1; }
        let len = j - i + 1;
        if len >= 5 { p += len as u32 - 2; }
        i = j + 1;
    }
    let pat = [true, false, true, true, true, false, true];
    if n >= 7 {
        for e in 6..n {
            if (0..7).all(|k| l[e - 6 + k].0 && l[e - 6 + k].1 == pat[k]) { p += 40; }
        }
    }
    p
}

pub fn dark_ratio_penalty(percent: usize) -> u32 { 10 * (if percent >= 50 { (percent - 50) / 5 } else { (49 - percent) / 5 }) as u32 }

/// cells: row-major n x n of (is_data, value)
pub fn penalty(cells: &[(bool, bool)], n: usize) -> u32 {
    let at = |y: usize, x: usize| cells[y * n + x];
    let mut p = 0u32;
    for y in 0..n { let l: Vec<(bool, bool)> = (0..n).map(|x| at(y, x)).collect(); p += line_penalty(&l); }
    for x in 0..n { let l: Vec<(bool, bool)> = (0..n).map(|y| at(y, x)).collect(); p += line_penalty(&l); }
    for y in 0..n - 1 {
        for x in 0..n - 1 {
            let (a, b, c, d) = (at(y, x), at(y, x + 1), at(y + 1, x), at(y + 1, x + 1));
            if a.0 && b.0 && c.0 && d.0 && a.1 == b.1 && a.1 == c.1 && a.1 == d.1 { p += 3; }
        }
    }
    let dark = cells.iter().filter(|c| c.1).count();
    p + dark_ratio_penalty(dark * 100 / (n * n))
}
