//! Bounded native oracle for fast_qr (public API only).  NOT the deciding technique of /verif: it is
//!  (1) the labelled *bounded stand-in* for functions the deductive verifier cannot reach in the current tree
//!      (restructured loops, lost anchors, unsupported constructs), and
//!  (2) the search for a concrete failing input that is attached to a failed proof obligation (replay).
//! Every case is a (payload, options) tuple; every check is one clause of a property statement evaluated against
//! the plain-Rust transcription of the ISO model in iso.rs.
//!
//! usage: fastqr_native sweep <quick|thorough> <seed> <Cxx[,Cyy..]|all>     -> JSON lines on stdout
//!        fastqr_native case <hex-input> <ecl|-> <version|-> <mask|-> <mode|->   -> JSON lines for one case
mod iso;
mod tables;

use fast_qr::{Mask, Mode, QRBuilder, QRCode, Version, ECL};
use iso::*;
use std::collections::BTreeSet;
use std::panic::{catch_unwind, AssertUnwindSafe};

const VS: [Version; 40] = [
    Version::V01, Version::V02, Version::V03, Version::V04, Version::V05, Version::V06, Version::V07, Version::V08, Version::V09, Version::V10,
    Version::V11, Version::V12, Version::V13, Version::V14, Version::V15, Version::V16, Version::V17, Version::V18, Version::V19, Version::V20,
    Version::V21, Version::V22, Version::V23, Version::V24, Version::V25, Version::V26, Version::V27, Version::V28, Version::V29, Version::V30,
    Version::V31, Version::V32, Version::V33, Version::V34, Version::V35, Version::V36, Version::V37, Version::V38, Version::V39, Version::V40,
];
const MS: [Mask; 8] = [Mask::Checkerboard, Mask::HorizontalLines, Mask::VerticalLines, Mask::DiagonalLines, Mask::LargeCheckerboard, Mask::Fields, Mask::Diamonds, Mask::Meadow];
const LS: [ECL; 4] = [ECL::L, ECL::M, ECL::Q, ECL::H];
const MDS: [Mode; 3] = [Mode::Numeric, Mode::Alphanumeric, Mode::Byte];

#[derive(Clone, Debug)]
struct Case { input: Vec<u8>, ecl: Option<usize>, version: Option<usize>, mask: Option<usize>, mode: Option<usize> }

impl Case {
    fn builder(&self) -> QRBuilder {
        let mut b = QRBuilder::new(self.input.clone());
        if let Some(l) = self.ecl { b.ecl(LS[l]); }
        if let Some(v) = self.version { b.version(VS[v]); }
        if let Some(m) = self.mask { b.mask(MS[m]); }
        if let Some(m) = self.mode { b.mode(MDS[m]); }
        b
    }
    fn json(&self) -> String {
        let o = |x: Option<usize>| x.map(|v| v.to_string()).unwrap_or("null".into());
        format!("{{\"input_hex\":\"{}\",\"len\":{},\"ecl\":{},\"version0\":{},\"mask\":{},\"mode\":{}}}",
            self.input.iter().map(|b| format!("{:02x}", b)).collect::<String>(), self.input.len(), o(self.ecl), o(self.version), o(self.mask), o(self.mode))
    }
    fn eff_mode(&self) -> usize { self.mode.unwrap_or_else(|| best_mode(&self.input)) }
    fn eff_level(&self) -> usize { self.ecl.unwrap_or(2) }
}

struct Out { want: BTreeSet<String>, n_fail: usize, per_prop: std::collections::BTreeMap<String, usize> }

impl Out {
    fn wants(&self, p: &str) -> bool { self.want.contains(p) }
    fn fail(&mut self, prop: &str, check: &str, case: &Case, detail: String) {
        if !self.wants(prop) { return; }
        let c = self.per_prop.entry(prop.to_string()).or_insert(0);
        *c += 1;
        self.n_fail += 1;
        if *c <= 5 {
            println!("{{\"fail\":true,\"property\":\"{}\",\"check\":\"{}\",\"case\":{},\"detail\":\"{}\"}}", prop, check, case.json(), detail.replace('\\', "/").replace('"', "'").chars().map(|ch| if ch.is_control() { ' ' } else { ch }).collect::<String>());
        }
    }
}

enum Built { Ok(Box<QRCode>), ErrData, ErrVersion, Panic(String) }

fn build(c: &Case) -> Built {
    let b = c.builder();
    match catch_unwind(AssertUnwindSafe(|| b.build())) {
        Ok(Ok(q)) => Built::Ok(Box::new(q)),
        Ok(Err(fast_qr::qr::QRCodeError::EncodedData)) => Built::ErrData,
        Ok(Err(fast_qr::qr::QRCodeError::SpecifiedVersion)) => Built::ErrVersion,
        Err(e) => Built::Panic(e.downcast_ref::<String>().cloned().or_else(|| e.downcast_ref::<&str>().map(|s| s.to_string())).unwrap_or_default()),
    }
}

fn ty(q: &QRCode, y: usize, x: usize) -> u8 { (q.data[y * q.size + x].0 >> 1) & 7 }
fn val(q: &QRCode, y: usize, x: usize) -> bool { q.data[y * q.size + x].0 & 1 == 1 }

/// C16: the terminal text decoded back (two half rows per line, ink = light) is the matrix with a one-module light
/// border; half row 0 (upper half of the first line) is the un-inked spare half row.
fn check_term(q: &QRCode, c: &Case, out: &mut Out) {
    let n = q.size;
    let s = match catch_unwind(AssertUnwindSafe(|| q.to_str())) {
        Ok(s) => s,
        Err(_) => { out.fail("C16", "to_str_panics", c, "QRCode::to_str() panicked".into()); return; }
    };
    let lines: Vec<Vec<char>> = s.split('\n').map(|l| l.chars().collect()).collect();
    if lines.len() != (n + 1) / 2 + 1 { out.fail("C16", "line_count", c, format!("{} lines, expected {} for size {}", lines.len(), (n + 1) / 2 + 1, n)); return; }
    for (k, l) in lines.iter().enumerate() {
        if l.len() != n + 2 { out.fail("C16", "line_width", c, format!("line {} has {} characters, expected {}", k, l.len(), n + 2)); return; }
        for (cx, ch) in l.iter().enumerate() {
            let (t, b) = match *ch { ' ' => (true, true), '\u{2584}' => (true, false), '\u{2580}' => (false, true), '\u{2588}' => (false, false),
                o => { out.fail("C16", "alphabet", c, format!("line {} column {} is {:?}", k, cx, o)); return; } };
            for (r, d) in [(2 * k, t), (2 * k + 1, b)] {
                let exp = if r == 0 { true } else if r >= 2 && r - 2 < n && cx >= 1 && cx - 1 < n { val(q, r - 2, cx - 1) } else { false };
                if d != exp {
                    out.fail("C16", "module_in_place", c, format!("text line {} column {} ({} half) reads dark={} but {} is dark={}", k, cx, if r % 2 == 0 { "upper" } else { "lower" }, d,
                        if r >= 2 && r - 2 < n && cx >= 1 && cx - 1 < n { format!("module ({},{})", r - 2, cx - 1) } else { "the border".to_string() }, exp));
                    return;
                }
            }
        }
    }
}

/// All single-build clauses.  Returns the built symbol when it is structurally sound enough for group checks.
fn check_case(c: &Case, out: &mut Out) -> Option<Box<QRCode>> {
    let em = c.eff_mode();
    let el = c.eff_level();
    debug_assert!(mode_accepts(em, &c.input));
    let smallest = smallest_version(em, el, c.input.len());
    let r = build(c);
    let q = match (r, smallest) {
        (Built::Panic(m), _) => {
            out.fail("C10", "build_panics", c, format!("panic: {}", m));
            if smallest.is_none() || c.version.map_or(false, |v| v < smallest.unwrap()) || true { out.fail("C05", "build_panics", c, format!("panic instead of a result: {}", m)); }
            return None;
        }
        (Built::ErrData, None) => return None,
        (Built::ErrData, Some(s)) => { out.fail("C05", "error_kind", c, format!("Err(EncodedData) but the input fits version0 {}", s)); return None; }
        (Built::ErrVersion, Some(s)) if c.version.map_or(false, |v| v < s) => return None,
        (Built::ErrVersion, s) => { out.fail("C05", "error_kind", c, format!("Err(SpecifiedVersion) but smallest={:?} forced={:?}", s, c.version)); return None; }
        (Built::Ok(q), None) => { out.fail("C05", "accepts_oversized", c, format!("Ok(version {:?}) but the input fits no version", q.version.map(|v| v as usize))); return None; }
        (Built::Ok(q), Some(s)) => {
            if c.version.map_or(false, |v| v < s) { out.fail("C05", "accepts_too_small_version", c, format!("Ok but forced version0 {:?} < smallest {}", c.version, s)); return None; }
            q
        }
    };
    let ev = c.version.unwrap_or(smallest.unwrap());
    let qv = q.version.map(|v| v as usize);
    if qv != Some(ev) { out.fail("C05", "version_used", c, format!("reported version0 {:?}, expected {}", qv, ev)); return None; }
    let v = ev;
    let n = side(v);
    if q.size != n { out.fail("C03", "size", c, format!("size {} expected {}", q.size, n)); return None; }
    if out.wants("C16") { check_term(&q, c, out); }
    if q.mode.map(|m| m as usize) != Some(em) {
        out.fail(if c.mode.is_none() { "C09" } else { "C04" }, "mode_reported", c, format!("mode {:?} expected {}", q.mode, em));
        if c.mode.is_none() { return None; }
    }
    if q.ecl.map(|l| l as usize) != Some(el) { out.fail("C04", "level_reported", c, format!("ecl {:?} expected {}", q.ecl, el)); }
    // labels and function patterns
    let mut n_data = 0usize;
    let mut bad_ty = None;
    let mut bad_fn = None;
    let mut bad_ver = None;
    for y in 0..n { for x in 0..n {
        let r = region(v, y, x);
        if ty(&q, y, x) != r as u8 && bad_ty.is_none() { bad_ty = Some((y, x, ty(&q, y, x), r)); }
        if ty(&q, y, x) == 0 { n_data += 1; }
        if r != Region::Data && r != Region::Format && r != Region::Version && val(&q, y, x) != function_dark(v, y, x) && bad_fn.is_none() { bad_fn = Some((y, x, r)); }
        if r == Region::Version && val(&q, y, x) != function_dark(v, y, x) && bad_ver.is_none() { bad_ver = Some((y, x)); }
    } }
    if let Some((y, x)) = bad_ver { out.fail("C04", "version_information", c, format!("version information module ({},{}) is not the bit of the BCH(18,6) word of version {}", y, x, v + 1)); }
    if let Some((y, x, t, r)) = bad_ty { out.fail("C15", "label", c, format!("module ({},{}) labelled {} expected {:?}", y, x, t, r)); }
    if n_data != raw_modules(v) { out.fail("C15", "data_label_count", c, format!("{} modules labelled data, expected {}", n_data, raw_modules(v))); }
    if let Some((y, x, r)) = bad_fn { out.fail("C03", "function_value", c, format!("function module ({},{}) of region {:?} has the wrong value", y, x, r)); }
    if let Some(k) = (n * n..q.data.len()).find(|&k| q.data[k].0 != 0) { out.fail("C03", "outside_square", c, format!("backing array index {} (outside the symbol) is {}", k, q.data[k].0)); }
    // format information
    let m = match q.mask.map(|m| m as usize) { Some(m) => m, None => { out.fail("C04", "mask_reported", c, "mask is None".into()); return None; } };
    if let Some(fm) = c.mask { if fm != m { out.fail("C11", "forced_mask_overrides", c, format!("forced mask {} but reported {}", fm, m)); out.fail("C04", "forced_mask_reported", c, format!("forced mask {} but reported {}", fm, m)); } }
    let fw = format_info(el, m as u32);
    let mut fmt_ok = true;
    for y in 0..n { for x in 0..n {
        if region(v, y, x) == Region::Format {
            let k = format_bit_index(n, y, x).unwrap();
            if val(&q, y, x) != ((fw >> k) & 1 == 1) && fmt_ok { fmt_ok = false; out.fail("C04", "format_bits", c, format!("format cell ({},{}) = bit {} of the word for level {} mask {} is wrong", y, x, k, el, m)); }
        }
    } }
    if bad_ty.is_some() { return None; }
    // read the codeword stream back: unmask with the reported mask, zig-zag order
    let zz = zigzag(v);
    let bits: Vec<bool> = zz.iter().map(|&(y, x)| val(&q, y, x) ^ mask_bit(m, y, x)).collect();
    let tc = total_codewords(v);
    if bits.len() != 8 * tc + remainder_bits(v) { out.fail("C15", "encoding_region_size", c, format!("{} encoding modules", bits.len())); return None; }
    let cw: Vec<u8> = (0..tc).map(|k| (0..8).fold(0u8, |a, i| (a << 1) | bits[8 * k + i] as u8)).collect();
    if bits[8 * tc..].iter().any(|&b| b) { out.fail("C02", "remainder_bits_zero", c, "a remainder bit is set before masking".into()); }
    let exp_data = data_codeword_seq(&c.input, em, v, el);
    let (dr, er) = deinterleave(&cw, v, l_of(el));
    let ec = tables::EC_PER_BLOCK[v][el];
    let data_read: Vec<u8> = dr.iter().flatten().cloned().collect();
    let consistent = dr.iter().zip(er.iter()).all(|(d, e)| &rs_remainder(d, ec) == e);
    let data_ok = data_read == exp_data;
    if !data_ok && !consistent {
        // does the symbol read correctly under ANOTHER mask than the one it reports?  then the format information lies
        for m2 in 0..8 {
            if m2 == m { continue; }
            let bits2: Vec<bool> = zz.iter().map(|&(y, x)| val(&q, y, x) ^ mask_bit(m2, y, x)).collect();
            let cw2: Vec<u8> = (0..tc).map(|k| (0..8).fold(0u8, |a, i| (a << 1) | bits2[8 * k + i] as u8)).collect();
            let (d2, _) = deinterleave(&cw2, v, el);
            let dr2: Vec<u8> = d2.iter().flatten().cloned().collect();
            if dr2 == exp_data {
                out.fail("C04", "reported_mask_is_applied_mask", c, format!("format information and the mask field say mask {}, but the data modules are masked with pattern {}", m, m2));
                break;
            }
        }
    }
    if !data_ok {
        let k = (0..exp_data.len()).find(|&k| data_read[k] != exp_data[k]).unwrap();
        if consistent && c.mode.is_none() {
            // the automatically chosen mode must not alter a character: same mode, same count, other characters
            if let Some(dec) = decode_bytes(&data_read, v) {
                if dec.0 == em && dec.1.len() == c.input.len() && dec.1 != c.input {
                    let i = (0..dec.1.len()).find(|&i| dec.1[i] != c.input[i]).unwrap();
                    out.fail("C09", "chosen_mode_alters_character", c, format!("automatic mode {} encodes input byte {:#04x} at position {} as {:#04x}", em, c.input[i], i, dec.1[i]));
                }
            }
        }
        if consistent {
            out.fail("C06", "data_codewords", c, format!("data codeword {} is {:#04x}, ISO stream has {:#04x} (blocks are RS-consistent)", k, data_read[k], exp_data[k]));
        } else {
            out.fail("C02", "syndromes", c, format!("blocks read from the symbol are not RS codewords (and data codeword {} differs)", k));
        }
        out.fail("C01", "decodes_to_input", c, format!("data codeword {} read back is {:#04x}, expected {:#04x}", k, data_read[k], exp_data[k]));
    } else if !consistent {
        let exp_final = final_codewords(&exp_data, v, el);
        let mut a: Vec<u8> = cw[exp_data.len()..].to_vec(); a.sort();
        let mut b: Vec<u8> = exp_final[exp_data.len()..].to_vec(); b.sort();
        if a != b { out.fail("C07", "ec_is_remainder", c, "EC codewords are not the remainder of the block they protect".into()); }
        out.fail("C02", "syndromes", c, "data codewords are right but a block has non-zero syndromes / EC codewords out of order".into());
    }
    // reference decoding of the data codewords (segment parsing)
    if data_ok || consistent {
        if let Some(e) = decode_mismatch(&data_read, v, &c.input) { if data_ok { out.fail("C01", "decodes_to_input", c, e); } }
    }
    Some(q)
}

fn l_of(l: usize) -> usize { l }

/// parse one segment: (mode, bytes)
fn decode_bytes(data: &[u8], v: usize) -> Option<(usize, Vec<u8>)> {
    let bits: Vec<bool> = data.iter().flat_map(|&b| (0..8).rev().map(move |i| (b >> i) & 1 == 1)).collect();
    let mut pos = 0usize;
    let mut take = |n: usize| -> Option<usize> { if pos + n > bits.len() { return None; } let r = bits[pos..pos + n].iter().fold(0usize, |a, &b| (a << 1) | b as usize); pos += n; Some(r) };
    let mode = match take(4)? { 1 => NUM, 2 => ALNUM, 4 => BYTE, _ => return None };
    let cnt = take(cci_bits(v, mode))?;
    let mut out: Vec<u8> = Vec::new();
    const AL: &[u8] = b"0123456789ABCDEFGHIJKLMNOPQRSTUVWXYZ $%*+-./:";
    match mode {
        NUM => { let mut left = cnt; while left > 0 { let k = core::cmp::min(3, left); let val = take([0, 4, 7, 10][k])?; let s = format!("{:0width$}", val, width = k); if s.len() != k { return None; } out.extend(s.bytes()); left -= k; } }
        ALNUM => { let mut left = cnt; while left > 0 { if left >= 2 { let x = take(11)?; if x >= 2025 { return None; } out.push(AL[x / 45]); out.push(AL[x % 45]); left -= 2; } else { let x = take(6)?; if x >= 45 { return None; } out.push(AL[x]); left -= 1; } } }
        _ => { for _ in 0..cnt { out.push(take(8)? as u8); } }
    }
    Some((mode, out))
}

/// parse one segment out of the data codewords; None when it yields exactly `input`
fn decode_mismatch(data: &[u8], v: usize, input: &[u8]) -> Option<String> {
    let bits: Vec<bool> = data.iter().flat_map(|&b| (0..8).rev().map(move |i| (b >> i) & 1 == 1)).collect();
    let mut pos = 0usize;
    let mut take = |n: usize| -> Option<usize> { if pos + n > bits.len() { return None; } let r = bits[pos..pos + n].iter().fold(0usize, |a, &b| (a << 1) | b as usize); pos += n; Some(r) };
    let mi = take(4)?;
    let mode = match mi { 1 => NUM, 2 => ALNUM, 4 => BYTE, _ => return Some(format!("mode indicator {}", mi)) };
    let cnt = match take(cci_bits(v, mode)) { Some(c) => c, None => return Some("truncated count".into()) };
    let mut out: Vec<u8> = Vec::new();
    const AL: &[u8] = b"0123456789ABCDEFGHIJKLMNOPQRSTUVWXYZ $%*+-./:";
    match mode {
        NUM => {
            let mut left = cnt;
            while left > 0 {
                let k = core::cmp::min(3, left);
                let val = match take([0, 4, 7, 10][k]) { Some(x) => x, None => return Some("truncated numeric".into()) };
                let s = format!("{:0width$}", val, width = k);
                if s.len() != k { return Some("numeric group out of range".into()); }
                out.extend(s.bytes()); left -= k;
            }
        }
        ALNUM => {
            let mut left = cnt;
            while left > 0 {
                if left >= 2 { let x = match take(11) { Some(x) => x, None => return Some("truncated alnum".into()) }; if x >= 45 * 45 { return Some("alnum pair out of range".into()); } out.push(AL[x / 45]); out.push(AL[x % 45]); left -= 2; }
                else { let x = match take(6) { Some(x) => x, None => return Some("truncated alnum".into()) }; if x >= 45 { return Some("alnum char out of range".into()); } out.push(AL[x]); left -= 1; }
            }
        }
        _ => { for _ in 0..cnt { match take(8) { Some(x) => out.push(x as u8), None => return Some("truncated bytes".into()) } } }
    }
    if out != input { return Some(format!("decoded {} bytes != input ({} bytes)", out.len(), input.len())); }
    // what follows must be a terminator (or the end of the capacity)
    let rest = bits.len() - pos;
    let t = core::cmp::min(4, rest);
    if bits[pos..pos + t].iter().any(|&b| b) { return Some("no terminator after the segment: a second segment would be decoded".into()); }
    None
}

fn cells_of(q: &QRCode) -> Vec<(bool, bool)> {
    let n = q.size;
    (0..n * n).map(|k| { let t = (q.data[k].0 >> 1) & 7; (t == 0, if t == 4 { false } else { q.data[k].0 & 1 == 1 }) }).collect()
}

/// Group clauses: the same payload with the 8 forced masks and with the automatic mask.
fn check_group(base: &Case, out: &mut Out) {
    let mut forced: Vec<Box<QRCode>> = Vec::new();
    for k in 0..8 {
        let mut c = base.clone(); c.mask = Some(k);
        match check_case(&c, out) { Some(q) => forced.push(q), None => return }
    }
    let v = forced[0].version.unwrap() as usize;
    let n = side(v);
    if out.wants("C08") {
        for k in 1..8 {
            let mut c = base.clone(); c.mask = Some(k);
            let mut bad = None;
            for y in 0..n { for x in 0..n {
                let r = region(v, y, x);
                let differs = val(&forced[0], y, x) != val(&forced[k], y, x);
                let tdiff = ty(&forced[0], y, x) != ty(&forced[k], y, x);
                let expect = match r { Region::Data => mask_bit(0, y, x) != mask_bit(k, y, x), Region::Format => differs, _ => false };
                if (differs != expect || tdiff) && bad.is_none() { bad = Some((y, x, r)); }
            } }
            if let Some((y, x, r)) = bad { out.fail("C08", "mask_pair_difference", &c, format!("masks 0 and {} : module ({},{}) region {:?} does not differ as Table 10 prescribes", k, y, x, r)); }
        }
    }
    let mut a = base.clone(); a.mask = None;
    if let Some(qa) = check_case(&a, out) {
        if out.wants("C11") || out.wants("C14") {
            let pen: Vec<u32> = forced.iter().map(|q| penalty(&cells_of(q), n)).collect();
            let m = qa.mask.unwrap() as usize;
            let best = *pen.iter().min().unwrap();
            if pen[m] != best { out.fail("C11", "automatic_mask_minimal", &a, format!("automatic mask {} has penalty {}, minimum is {} (penalties {:?})", m, pen[m], best, pen)); }
            if qa.data[..] .iter().zip(forced[m].data[..].iter()).any(|(x, y)| x.0 != y.0) { out.fail("C11", "automatic_equals_forced", &a, format!("automatic build (mask {}) differs from the build forcing that mask", m)); }
        }
    }
}

fn same(a: &QRCode, b: &QRCode) -> bool {
    a.size == b.size && a.version.map(|v| v as usize) == b.version.map(|v| v as usize) && a.mask.map(|v| v as usize) == b.mask.map(|v| v as usize)
        && a.ecl.map(|v| v as usize) == b.ecl.map(|v| v as usize) && a.mode.map(|v| v as usize) == b.mode.map(|v| v as usize) && a.data.iter().zip(b.data.iter()).all(|(x, y)| x.0 == y.0)
}

/// C14: histories.  Same final options => same result (setter order, repeated setters, reused builder, earlier builds, threads).
fn check_history(cases: &[Case], out: &mut Out) {
    if !out.wants("C14") { return; }
    let fresh: Vec<Option<Box<QRCode>>> = cases.iter().map(|c| match build(c) { Built::Ok(q) => Some(q), _ => None }).collect();
    for (i, c) in cases.iter().enumerate() {
        let Some(f) = &fresh[i] else { continue };
        if f.mask.is_none() || f.version.is_none() { continue; }   // reported by the C04 clauses; nothing to replay
        // reused builder, second build
        let b = c.builder();
        let r1 = b.build().ok(); let r2 = b.build().ok();
        if !(r1.as_ref().map_or(false, |q| same(q, f)) && r2.as_ref().map_or(false, |q| same(q, f))) { out.fail("C14", "reused_builder", c, "second build() on the same builder differs".into()); }
        // setters called first with other values, in the reverse order, then with the final values
        let mut b = QRBuilder::new(c.input.clone());
        b.mask(MS[(i + 3) % 8]); b.version(VS[39]); b.ecl(LS[(i + 1) % 4]); b.mode(MDS[2]);
        let mut all = c.clone();
        // the final values are the ones the fresh build itself reports (C14 is about histories, not about which mode is right)
        all.ecl = Some(f.ecl.map(|l| l as usize).unwrap_or(c.eff_level())); all.mode = Some(f.mode.map(|m| m as usize).unwrap_or(c.eff_mode()));
        if !mode_accepts(all.mode.unwrap(), &c.input) { continue; }
        let fv = f.version.unwrap() as usize; let fm = f.mask.unwrap() as usize;
        b.mode(MDS[all.mode.unwrap()]); b.ecl(LS[all.ecl.unwrap()]); b.version(VS[fv]); b.mask(MS[fm]);
        match b.build() { Ok(q) if same(&q, f) => {}, _ => out.fail("C14", "last_setter_wins", c, format!("setters overridden with final values (ecl {:?} version0 {} mask {} mode {:?}) give a different symbol", all.ecl, fv, fm, all.mode)) }
        // a build BETWEEN setter calls must not leak into the next build: build with nothing set, then set one option
        // (or all four) and build again; the result must be that of a fresh builder with the same final options
        for which in 0..5usize {
            let mut bb = QRBuilder::new(c.input.clone());
            let _ = catch_unwind(AssertUnwindSafe(|| bb.build().is_ok()));
            let mut exp = Case { input: c.input.clone(), ecl: None, version: None, mask: None, mode: None };
            if which == 0 || which == 4 { bb.mode(MDS[all.mode.unwrap()]); exp.mode = all.mode; }
            if which == 1 || which == 4 { bb.ecl(LS[all.ecl.unwrap()]); exp.ecl = all.ecl; }
            if which == 2 || which == 4 { bb.version(VS[fv]); exp.version = Some(fv); }
            if which == 3 || which == 4 { bb.mask(MS[fm]); exp.mask = Some(fm); }
            let got = catch_unwind(AssertUnwindSafe(|| bb.build().ok())).ok().flatten();
            let want = match build(&exp) { Built::Ok(q) => Some(q), _ => None };
            let ok = match (&got, &want) { (Some(a), Some(b)) => same(a, b), (None, None) => true, _ => false };
            if !ok { out.fail("C14", "build_between_setters", c, format!("build(); then setter group {} (0 mode, 1 ecl, 2 version, 3 mask, 4 all); build() differs from a fresh builder with the same final options", which)); }
        }
        // other order of the same final setters
        let mut b2 = QRBuilder::new(c.input.clone());
        b2.version(VS[fv]); b2.mask(MS[fm]); b2.mode(MDS[all.mode.unwrap()]); b2.ecl(LS[all.ecl.unwrap()]);
        match b2.build() { Ok(q) if same(&q, f) => {}, _ => out.fail("C14", "setter_order", c, "another order of the same setters gives a different symbol".into()) }
    }
    // earlier builds / interleavings: rebuild everything in reverse order, then concurrently
    for (i, c) in cases.iter().enumerate().rev() {
        let r = match build(c) { Built::Ok(q) => Some(q), _ => None };
        let ok = match (&r, &fresh[i]) { (Some(a), Some(b)) => same(a, b), (None, None) => true, _ => false };
        if !ok { out.fail("C14", "depends_on_earlier_builds", c, "result differs when other builds happened before".into()); }
    }
    let shared = std::sync::Arc::new(cases.to_vec());
    let mut hs = Vec::new();
    for t in 0..8usize {
        let cs = shared.clone();
        hs.push(std::thread::spawn(move || {
            let mut res = Vec::new();
            for k in 0..cs.len() { let i = (k * 7 + t * 3) % cs.len(); res.push((i, match build(&cs[i]) { Built::Ok(q) => Some(q), _ => None })); }
            res
        }));
    }
    for h in hs {
        for (i, r) in h.join().unwrap() {
            let ok = match (&r, &fresh[i]) { (Some(a), Some(b)) => same(a, b), (None, None) => true, _ => false };
            if !ok { out.fail("C14", "concurrent_builds", &cases[i], "result of a concurrent build differs from the sequential one".into()); }
        }
    }
}


// ---- C18 (bounded stand-in for SvgBuilder::image(), which mixes f64 arithmetic with string building) ---------------
fn attr(tag: &str, name: &str) -> Option<f64> {
    let k = format!(" {}=\"", name);
    let i = tag.find(&k)? + k.len();
    let j = tag[i..].find('"')? + i;
    tag[i..j].trim_end_matches("px").parse().ok()
}

fn c18_elements(svg: &str) -> Option<((f64, f64, f64), (f64, f64, f64))> {
    // the frame is the <rect> directly in front of the <image> element
    let ii = svg.find("<image ")?;
    let ri = svg[..ii].rfind("<rect ")?;
    let rect = &svg[ri..ii];
    let img = &svg[ii..ii + svg[ii..].find("/>")?];
    Some(((attr(rect, "x")?, attr(rect, "y")?, attr(rect, "width")?), (attr(img, "x")?, attr(img, "y")?, attr(img, "width")?)))
}

fn c18(size: &str, seed: u64) {
    use fast_qr::convert::svg::SvgBuilder;
    use fast_qr::convert::{Builder, ImageBackgroundShape};
    let shapes = [ImageBackgroundShape::Square, ImageBackgroundShape::Circle, ImageBackgroundShape::RoundedSquare];
    let mut r = Rng(0xC18C18C18C18 ^ seed.wrapping_mul(0x9E3779B97F4A7C15) | 1);
    let (mut evals, mut fails) = (0usize, 0usize);
    let mut fail = |what: &str, v: usize, s: usize, m: usize, ov: &str, detail: String| {
        fails += 1;
        if fails <= 12 { println!("{{\"fail\":true,\"property\":\"C18\",\"check\":\"{}\",\"case\":{{\"version0\":{},\"shape\":{},\"margin\":{},\"overrides\":\"{}\"}},\"detail\":\"{}\"}}", what, v, s, m, ov, detail.replace('"', "'")); }
    };
    let eq = |a: f64, b: f64| (a - b).abs() <= 0.011;   // the image element is printed with two decimals
    let qrs: Vec<QRCode> = (0..40).map(|v| QRBuilder::new("x").version(VS[v]).build().unwrap()).collect();
    let mut prev = [[0f64; 17]; 3];
    for v in 0..40usize { for s in 0..3usize { for m in 0..=16usize {
        let n = side(v) as f64;
        let svg = SvgBuilder::default().image("data:,".to_string()).image_background_shape(shapes[s]).margin(m).to_str(&qrs[v]);
        evals += 1;
        let Some(((x, y, w), (ix, iy, iw))) = c18_elements(&svg) else { fail("elements", v, s, m, "", "no frame <rect> / <image> element found".into()); continue };
        let mf = m as f64;
        if !(x == y && eq(x + w / 2.0, mf + n / 2.0)) { fail("frame_centred", v, s, m, "", format!("frame x={} y={} w={} is not centred on the symbol (side {}, margin {})", x, y, w, n, m)); }
        if (x - mf).fract() != 0.0 || w.fract() != 0.0 { fail("frame_module_aligned", v, s, m, "", format!("frame edge x={} w={} is not on a module boundary", x, w)); }
        if !(w < 0.4 * n) { fail("frame_below_40_percent", v, s, m, "", format!("frame side {} >= 40% of {}", w, n)); }
        if !(x - mf >= 8.0 && x - mf + w <= n - 8.0) { fail("frame_clear_of_finders", v, s, m, "", format!("frame [{}, {}] reaches the finder zone", x - mf, x - mf + w)); }
        if v > 0 && w < prev[s][m] { fail("frame_monotone", v, s, m, "", format!("frame side {} smaller than for the previous version ({})", w, prev[s][m])); }
        prev[s][m] = w;
        if !(iw <= w + 0.011 && iw > 0.0) { fail("image_fits_frame", v, s, m, "", format!("image side {} larger than the frame {}", iw, w)); }
        if !(eq(ix + iw / 2.0, x + w / 2.0) && eq(iy + iw / 2.0, y + w / 2.0)) { fail("image_centred", v, s, m, "", format!("image x={} w={} is not centred in the frame x={} w={}", ix, iw, x, w)); }
    } } }
    // explicit overrides (sampled)
    let reps = if size == "thorough" { 4000 } else { 800 };
    for _ in 0..reps {
        let v = r.below(40); let s = r.below(3); let m = r.below(17);
        let n = side(v) as f64;
        let q = |r: &mut Rng, lo: f64, hi: f64| lo + (hi - lo) * (r.below(10_000) as f64 / 10_000.0);
        let osz = if r.below(3) > 0 { Some(if r.below(2) == 0 { (1 + r.below(12)) as f64 } else { q(&mut r, 1.0, 14.0) }) } else { None };
        let ogap = if r.below(3) > 0 { Some(if r.below(2) == 0 { r.below(4) as f64 } else { q(&mut r, 0.0, 3.0) }) } else { None };
        let opos = if r.below(2) == 0 { Some((q(&mut r, 5.0, n), q(&mut r, 5.0, n))) } else { None };
        let mut b = SvgBuilder::default();
        b.image("data:,".to_string()).image_background_shape(shapes[s]).margin(m);
        if let Some(z) = osz { b.image_size(z); }
        if let Some(g) = ogap { b.image_gap(g); }
        if let Some((px, py)) = opos { b.image_position(px, py); }
        let ov = format!("size={:?} gap={:?} position={:?}", osz, ogap, opos);
        let svg = b.to_str(&qrs[v]);
        evals += 1;
        let Some(((x, y, w), (ix, iy, iw))) = c18_elements(&svg) else { fail("elements", v, s, m, &ov, "no frame <rect> / <image> element found".into()); continue };
        if let Some(z) = osz { if !eq(iw, z) { fail("requested_size", v, s, m, &ov, format!("image side {} but size {} was requested", iw, z)); } }
        if let (Some(g), true) = (ogap, true) {
            let want = iw + 2.0 * g;
            if !(w <= want + 0.011 && w >= want - 1.011) { fail("requested_gap", v, s, m, &ov, format!("frame side {} for image {} and gap {} (expected {} less at most one module)", w, iw, g, want)); }
        }
        match opos {
            Some((px, py)) => if !(eq(x + w / 2.0, px) && eq(y + w / 2.0, py)) { fail("requested_position", v, s, m, &ov, format!("frame centre ({}, {}) but position ({}, {}) was requested", x + w / 2.0, y + w / 2.0, px, py)); },
            None => if !(x == y && (x + w / 2.0 - (m as f64 + n / 2.0)).abs() <= 0.5 + 1e-9) { fail("frame_centred", v, s, m, &ov, format!("frame x={} y={} w={} not centred (side {}, margin {})", x, y, w, n, m)); },
        }
        if !(eq(ix + iw / 2.0, x + w / 2.0) && eq(iy + iw / 2.0, y + w / 2.0)) { fail("image_centred", v, s, m, &ov, format!("image x={} y={} w={} is not centred in the frame x={} y={} w={}", ix, iy, iw, x, y, w)); }
    }
    println!("{{\"summary\":true,\"builds\":{},\"distinct_cases\":{},\"failures\":{},\"default_cases\":2040,\"override_cases\":{}}}", evals, evals, fails, reps);
}

// ---- corpus ---------------------------------------------------------------------------------------------------
struct Rng(u64);
impl Rng {
    fn next(&mut self) -> u64 { let mut x = self.0; x ^= x << 13; x ^= x >> 7; x ^= x << 17; self.0 = x; x }
    fn below(&mut self, n: usize) -> usize { (self.next() % n as u64) as usize }
}

fn payload(r: &mut Rng, mode: usize, len: usize, style: usize) -> Vec<u8> {
    const AL: &[u8] = b"0123456789ABCDEFGHIJKLMNOPQRSTUVWXYZ $%*+-./:";
    (0..len).map(|i| match mode {
        NUM => match style % 4 { 1 => b'0', 2 => b'9', _ => b'0' + r.below(10) as u8 },
        ALNUM => match style % 4 { 1 => AL[i % 45], 2 => b':', _ => AL[r.below(45)] },
        _ => match style % 6 { 1 => 0u8, 2 => 0xFF, 3 => if r.below(4) == 0 { 0 } else { r.below(256) as u8 }, 4 => b'a' + r.below(26) as u8, _ => r.below(256) as u8 },
    }).collect()
}

fn fix_class(mut p: Vec<u8>, mode: usize) -> Vec<u8> {
    // keep automatic mode detection == mode: an alphanumeric payload needs a non-digit, a byte payload a non-alnum
    if p.is_empty() { return p; }
    if mode == ALNUM && p.iter().all(|&c| is_digit(c)) { p[0] = b'A'; }
    if mode == BYTE && p.iter().all(|&c| alnum45(c)) { p[0] = b'a'; }
    p
}

fn corpus(size: &str, seed: u64) -> (Vec<Case>, Vec<Case>) {
    let mut r = Rng(0x9E3779B97F4A7C15 ^ seed.wrapping_mul(0xD1B54A32D192ED03) | 1);
    let big = size == "thorough";
    let mut singles = Vec::new();
    let mut groups = Vec::new();
    // A. capacity boundaries of every (mode, level, version) cell
    for mode in 0..3 { for l in 0..4 { for v in 0..40 {
        let ml = max_len(v, mode, l);
        let st = r.below(6);
        singles.push(Case { input: fix_class(payload(&mut r, mode, ml, st), mode), ecl: Some(l), version: None, mask: Some(r.below(8)), mode: if r.below(2) == 0 { Some(mode) } else { None } });
        singles.push(Case { input: fix_class(payload(&mut r, mode, ml + 1, 0), mode), ecl: Some(l), version: None, mask: Some(r.below(8)), mode: Some(mode) });
        if v > 0 { singles.push(Case { input: fix_class(payload(&mut r, mode, ml, 0), mode), ecl: Some(l), version: Some(v - 1), mask: Some(0), mode: Some(mode) }); }
        // the forced version itself at its capacity boundary: exactly full (Ok), one and two characters too many (error)
        for extra in 0..3usize { singles.push(Case { input: fix_class(payload(&mut r, mode, ml + extra, 0), mode), ecl: Some(l), version: Some(v), mask: Some((v + extra) % 8), mode: if extra == 2 { None } else { Some(mode) } }); }
        if big || (v + l + mode) % 3 == 0 {
            // spare-bit classes just below the capacity, and a forced larger version
            for d in 1..=3 { if ml >= d { singles.push(Case { input: fix_class(payload(&mut r, mode, ml - d, d), mode), ecl: Some(l), version: Some(v), mask: Some(r.below(8)), mode: Some(mode) }); } }
            let short = r.below(8);
            singles.push(Case { input: fix_class(payload(&mut r, mode, short, 0), mode), ecl: Some(l), version: Some(v), mask: Some(r.below(8)), mode: None });
        }
    } } }
    // B. short inputs, everything automatic / default level
    for len in 0..(if big { 120 } else { 48 }) { for mode in 0..3 {
        let st = r.below(6);
        singles.push(Case { input: fix_class(payload(&mut r, mode, len, st), mode), ecl: if len % 2 == 0 { None } else { Some(r.below(4)) }, version: None, mask: if len % 3 == 0 { None } else { Some(r.below(8)) }, mode: None });
    } }
    // C. classification: every byte value alone and after a digit / a letter
    for b in 0..=255u8 {
        singles.push(Case { input: vec![b], ecl: None, version: None, mask: Some(1), mode: None });
        singles.push(Case { input: vec![b'7', b, b'3'], ecl: Some(0), version: None, mask: Some(2), mode: None });
        singles.push(Case { input: vec![b'Z', b], ecl: Some(3), version: None, mask: Some(5), mode: None });
    }
    // F. corner contents: empty / one-character payloads with every forced mode, and byte payloads that start, end or
    //    are filled with notable byte patterns (UTF-8 BOM, NUL, pad-codeword look-alikes, CR LF, 0xFF)
    for mode in 0..3 { for l in 0..4 { for v in [None, Some(0usize), Some(9), Some(26), Some(39)] {
        singles.push(Case { input: vec![], ecl: Some(l), version: v, mask: Some((l + mode) % 8), mode: Some(mode) });
        let one = fix_class(payload(&mut r, mode, 1, 0), mode);
        singles.push(Case { input: one, ecl: Some(l), version: v, mask: None, mode: Some(mode) });
    } } }
    let pats: [&[u8]; 8] = [&[0xEF, 0xBB, 0xBF], &[0x00], &[0xEC, 0x11], &[0x11, 0xEC], &[0x0D, 0x0A], &[0xFF, 0xFE], &[0x20], &[0xC3, 0xA9]];
    for (k, pat) in pats.iter().enumerate() { for len in [0usize, 1, 5, 17, 40, 100] {
        let body = payload(&mut r, BYTE, len, 4);
        let mut a: Vec<u8> = pat.to_vec(); a.extend(body.iter());
        let mut b: Vec<u8> = body.clone(); b.extend(pat.iter());
        let mut c: Vec<u8> = Vec::new(); while c.len() < len + 3 { c.extend(pat.iter()); }
        for inp in [a, b, c] {
            let m = best_mode(&inp);
            singles.push(Case { input: inp, ecl: Some(k % 4), version: None, mask: Some(k % 8), mode: if m == BYTE { None } else { Some(BYTE) } });
        }
    } }
    // D. oversized inputs
    for mode in 0..3 { for l in 0..4 {
        let ml = max_len(39, mode, l);
        for extra in [1usize, 2, 100] { singles.push(Case { input: fix_class(payload(&mut r, mode, ml + extra, 0), mode), ecl: Some(l), version: if extra == 2 { Some(39) } else { None }, mask: None, mode: Some(mode) }); }
    } }
    // E. mask groups: every version, near-full and short payloads
    for v in 0..40 {
        let reps = if big { 4 } else { 1 };
        for k in 0..reps {
            let l = (v + k) % 4; let mode = (v + 2 + k) % 3;
            let ml = max_len(v, mode, l);
            let len = if k % 2 == 0 { ml - r.below(core::cmp::min(ml, 3) + 1).min(ml) } else { r.below(ml + 1) };
            let st = r.below(6);
            groups.push(Case { input: fix_class(payload(&mut r, mode, len, st), mode), ecl: Some(l), version: Some(v), mask: None, mode: Some(mode) });
        }
        let l = (v * 7 + 1) % 4;
        let len = r.below(12);
        groups.push(Case { input: fix_class(payload(&mut r, BYTE, len, 4), BYTE), ecl: Some(l), version: Some(v), mask: None, mode: None });
    }
    // many small symbols with automatic version (mask selection is most sensitive there: few modules, close penalties)
    for i in 0..(if big { 3000 } else { 600 }) {
        let len = 1 + r.below(if i % 3 == 0 { 40 } else { 14 });
        let mode = r.below(3);
        let st = r.below(6);
        groups.push(Case { input: fix_class(payload(&mut r, mode, len, st), mode), ecl: Some(r.below(4)), version: None, mask: None, mode: None });
    }
    for i in 0..(if big { 200 } else { 40 }) {
        let len = r.below(if i % 4 == 0 { 400 } else { 60 });
        let mode = r.below(3);
        let st = r.below(6);
        groups.push(Case { input: fix_class(payload(&mut r, mode, len, st), mode), ecl: if i % 5 == 0 { None } else { Some(r.below(4)) }, version: None, mask: None, mode: None });
    }
    (singles, groups)
}

fn main() {
    let args: Vec<String> = std::env::args().collect();
    std::panic::set_hook(Box::new(|_| {}));
    let want = |s: &str| -> BTreeSet<String> {
        if s == "all" { ["C01", "C02", "C03", "C04", "C05", "C06", "C07", "C08", "C09", "C10", "C11", "C14", "C15", "C16"].iter().map(|x| x.to_string()).collect() } else { s.split(',').map(|x| x.to_string()).collect() }
    };
    if args.len() >= 5 && args[1] == "sweep" {
        let seed: u64 = args[3].parse().unwrap_or(0);
        let mut out = Out { want: want(&args[4]), n_fail: 0, per_prop: Default::default() };
        let (singles, groups) = corpus(&args[2], seed);
        let only_history = out.want.len() == 1 && out.wants("C14");
        let mut n_builds = 0usize;
        if !only_history {
            for c in &singles {
                let q = check_case(c, &mut out);
                n_builds += 1;
                // C08 on single cases too: the same payload with the next mask must differ exactly as Table 10 says
                if let (Some(q), Some(m), true) = (q, c.mask, out.wants("C08")) {
                    let mut c2 = c.clone(); c2.mask = Some((m + 1) % 8);
                    if let Built::Ok(q2) = build(&c2) {
                        n_builds += 1;
                        let v = q.version.unwrap() as usize; let n = side(v);
                        if q2.version.map(|x| x as usize) == Some(v) {
                            let mut bad = None;
                            for y in 0..n { for x in 0..n {
                                let r = region(v, y, x);
                                let differs = val(&q, y, x) != val(&q2, y, x);
                                let expect = match r { Region::Data => mask_bit(m, y, x) != mask_bit((m + 1) % 8, y, x), Region::Format => differs, _ => false };
                                if (differs != expect || ty(&q, y, x) != ty(&q2, y, x)) && bad.is_none() { bad = Some((y, x, r)); }
                            } }
                            if let Some((y, x, r)) = bad { out.fail("C08", "mask_pair_difference", c, format!("masks {} and {} : module ({},{}) region {:?} does not differ as Table 10 prescribes", m, (m + 1) % 8, y, x, r)); }
                        }
                    }
                }
            }
            let group_props = ["C08", "C11", "C01", "C02", "C03", "C04", "C06", "C07", "C15", "C10", "C16"];
            if group_props.iter().any(|p| out.wants(p)) { for g in &groups { check_group(g, &mut out); n_builds += 9; } }
        }
        if out.wants("C14") {
            let mut hist: Vec<Case> = groups.iter().step_by(if args[2] == "thorough" { 2 } else { 5 }).cloned().collect();
            hist.extend(singles.iter().step_by(97).cloned());
            n_builds += hist.len() * 29;
            check_history(&hist, &mut out);
        }
        let pp: Vec<String> = out.per_prop.iter().map(|(k, v)| format!("\"{}\":{}", k, v)).collect();
        let distinct: BTreeSet<String> = singles.iter().chain(groups.iter()).map(|c| c.json()).collect();
        let samples: Vec<String> = singles.iter().step_by(singles.len() / 3 + 1).chain(groups.iter().step_by(groups.len() / 2 + 1)).map(|c| { let mut d = c.clone(); if d.input.len() > 24 { d.input.truncate(24); } format!("{{\"len\":{},\"truncated_case\":{}}}", c.input.len(), d.json()) }).collect();
        println!("{{\"summary\":true,\"single_cases\":{},\"mask_groups\":{},\"distinct_cases\":{},\"builds\":{},\"failures\":{},\"per_property\":{{{}}},\"samples\":[{}]}}", singles.len(), groups.len(), distinct.len(), n_builds, out.n_fail, pp.join(","), samples.join(","));
        return;
    }
    if args.len() >= 7 && args[1] == "case" {
        let hex = &args[2];
        let input: Vec<u8> = (0..hex.len() / 2).map(|i| u8::from_str_radix(&hex[2 * i..2 * i + 2], 16).unwrap()).collect();
        let o = |s: &String| -> Option<usize> { s.parse().ok() };
        let c = Case { input, ecl: o(&args[3]), version: o(&args[4]), mask: o(&args[5]), mode: o(&args[6]) };
        let mut out = Out { want: want("all"), n_fail: 0, per_prop: Default::default() };
        if c.mask.is_none() { check_group(&c, &mut out); } else { check_case(&c, &mut out); }
        check_history(&[c], &mut out);
        println!("{{\"summary\":true,\"failures\":{}}}", out.n_fail);
        return;
    }
    if args.len() >= 4 && args[1] == "c18" {
        c18(&args[2], args[3].parse().unwrap_or(0));
        return;
    }
    if args.len() >= 2 && args[1] == "selfcheck" {
        // the oracle's own ISO transcription (iso.rs) against the independent `qrcode` 0.12 crate, stage by stage:
        // data codewords, interleaved data+EC codewords, complete masked matrix with format/version information
        use qrcode::bits::Bits;
        use qrcode::canvas::{Canvas, MaskPattern};
        use qrcode::types::{Color, EcLevel, Version as QV};
        let els = [EcLevel::L, EcLevel::M, EcLevel::Q, EcLevel::H];
        let mps = [MaskPattern::Checkerboard, MaskPattern::HorizontalLines, MaskPattern::VerticalLines, MaskPattern::DiagonalLines, MaskPattern::LargeCheckerboard, MaskPattern::Fields, MaskPattern::Diamonds, MaskPattern::Meadow];
        let mut r = Rng(0x1234_5678_9ABC_DEF1);
        let (mut n, mut bad) = (0usize, 0usize);
        for v in 0..40usize { for l in 0..4usize { for mode in 0..3usize {
            let ml = max_len(v, mode, l);
            for len in [ml, r.below(ml + 1)] {
                let st = r.below(6);
                let input = payload(&mut r, mode, len, st);
                let mask = r.below(8);
                let data = data_codeword_seq(&input, mode, v, l);
                let mut bits = Bits::new(QV::Normal(v as i16 + 1));
                match mode { NUM => bits.push_numeric_data(&input).unwrap(), ALNUM => bits.push_alphanumeric_data(&input).unwrap(), _ => bits.push_byte_data(&input).unwrap() };
                bits.push_terminator(els[l]).unwrap();
                let qd = bits.into_bytes();
                n += 1;
                if qd != data { bad += 1; println!("SELFCHECK-FAIL data codewords v0={} l={} mode={} len={}", v, l, mode, len); continue; }
                let (qdi, qei) = qrcode::ec::construct_codewords(&qd, QV::Normal(v as i16 + 1), els[l]).unwrap();
                let fin = final_codewords(&data, v, l);
                let mut qf = qdi.clone(); qf.extend(qei.iter());
                if qf != fin { bad += 1; println!("SELFCHECK-FAIL final codewords v0={} l={}", v, l); continue; }
                let mut cv = Canvas::new(QV::Normal(v as i16 + 1), els[l]);
                cv.draw_all_functional_patterns();
                cv.draw_data(&qdi, &qei);
                cv.apply_mask(mps[mask]);
                let cols = cv.into_colors();
                // the oracle's expected matrix
                let nn = side(v);
                let zz = zigzag(v);
                let mut exp = vec![false; nn * nn];
                for y in 0..nn { for x in 0..nn {
                    exp[y * nn + x] = match region(v, y, x) { Region::Format => (format_info(l, mask as u32) >> format_bit_index(nn, y, x).unwrap()) & 1 == 1, Region::Data => false, _ => function_dark(v, y, x) };
                } }
                for (k, &(y, x)) in zz.iter().enumerate() {
                    let b = if k < 8 * fin.len() { (fin[k / 8] >> (7 - k % 8)) & 1 == 1 } else { false };
                    exp[y * nn + x] = b ^ mask_bit(mask, y, x);
                }
                let got: Vec<bool> = cols.iter().map(|c| *c == Color::Dark).collect();
                if got != exp { bad += 1; let k = (0..nn * nn).find(|&k| got[k] != exp[k]).unwrap(); println!("SELFCHECK-FAIL matrix v0={} l={} mask={} first difference at (y={}, x={}) region {:?}", v, l, mask, k / nn, k % nn, region(v, k / nn, k % nn)); }
            }
        } } }
        println!("{{\"selfcheck\":true,\"cases\":{},\"disagreements\":{}}}", n, bad);
        std::process::exit(if bad == 0 { 0 } else { 1 });
    }
    eprintln!("usage: fastqr_native sweep <quick|thorough> <seed> <props|all> | case <hex> <ecl|-> <version0|-> <mask|-> <mode|->");
    std::process::exit(2);
}
