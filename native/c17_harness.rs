// ---- /verif/native/c17_harness.rs: compiled only inside a SCRATCH copy of the repository, as a child module of
// `wasm` (private access), with `mod wasm` enabled natively (wasm.rs itself is not edited apart from the appended
// `mod` line).  BOUNDED stand-in for the C17 clauses contracts cannot reach (str parsing, SVG text).
use super::*;
use crate::convert::svg::SvgBuilder;
use crate::convert::{Builder, ImageBackgroundShape, Shape};
use crate::{QRBuilder, Version, ECL};
use std::panic::{catch_unwind, AssertUnwindSafe};

fn fail(n: &mut usize, clause: &str, detail: String) {
    *n += 1;
    if *n <= 40 { println!("C17-FAIL {} :: {}", clause, detail.replace('\n', " ")); }
}

fn strings() -> Vec<String> {
    // every string of 0..=4 tokens over an alphabet with hex digits, non-hex letters, signs, blanks, NUL and
    // multi-byte characters (so that 2-byte chunks split a UTF-8 sequence), with and without a leading '#',
    // plus well-formed and nearly well-formed colours
    let toks = ["0", "f", "F", "9", "a", "g", "z", " ", "+", "-", "#", "\u{e9}", "\u{20ac}", "\u{0}", "10", "ff"];
    let mut out: Vec<String> = vec![String::new()];
    let mut layer: Vec<String> = vec![String::new()];
    for _ in 0..4 {
        let mut next = Vec::new();
        for p in &layer { for t in toks { next.push(format!("{}{}", p, t)); } }
        out.extend(next.iter().cloned());
        layer = next;
    }
    let mut extra: Vec<String> = Vec::new();
    for s in ["#ff0000", "#FF0000", "ff0000", "#ff0000aa", "#12345", "#1234567", "#123456789", "#ffffffff00", "#ggg", "#+f+f+f", "#\u{e9}\u{e9}\u{e9}", "#ff00\u{20ac}", "######", "#ff 00 00", "0x112233", "#fffffffffffffffffffff"] {
        extra.push(s.to_string());
    }
    out.extend(extra);
    out
}

#[test]
fn verif_c17_native() {
    std::panic::set_hook(Box::new(|_| {}));
    let mut n_fail = 0usize;
    let mut evals = 0usize;
    // 1. colour setters: no string makes a setter panic, and whatever they store never makes qr_svg panic
    let all = strings();
    for (k, s) in all.iter().enumerate() {
        for which in 0..3 {
            evals += 1;
            let r = catch_unwind(AssertUnwindSafe(|| match which {
                0 => SvgOptions::new().module_color(s.clone()),
                1 => SvgOptions::new().background_color(s.clone()),
                _ => SvgOptions::new().image_background_color(s.clone()),
            }));
            match r {
                Err(_) => fail(&mut n_fail, "colour_setter_panics", format!("setter {} panics for colour string {:?}", ["module_color", "background_color", "image_background_color"][which], s)),
                Ok(o) => {
                    if k % 7 == 0 || s.len() >= 7 {
                        evals += 1;
                        if catch_unwind(AssertUnwindSafe(|| qr_svg("x", o))).is_err() { fail(&mut n_fail, "qr_svg_panics_after_colour", format!("qr_svg panics after colour string {:?} (setter {})", s, which)); }
                    }
                }
            }
        }
    }
    // 2. position arrays of any length, size with/without position, image set or not
    for plen in 0..5usize { for with_size in [false, true] { for with_image in [false, true] {
        evals += 1;
        let r = catch_unwind(AssertUnwindSafe(|| {
            let mut o = SvgOptions::new().image_position(vec![3.0; plen]);
            if with_size { o = o.image_size(5.0, 1.0); }
            if with_image { o = o.image("data:,".to_string()); }
            qr_svg("hello", o)
        }));
        if r.is_err() { fail(&mut n_fail, "qr_svg_panics_options", format!("qr_svg panics with image_position of length {}, image_size set: {}, image set: {}", plen, with_size, with_image)); }
    } } }
    // 3. matrix export == native build with default options
    let long = "a".repeat(3000);
    let contents: Vec<&str> = vec!["", "a", "HELLO WORLD", "0123456789", "https://example.com/", "\u{e9}\u{20ac} mixed", &long];
    for c in &contents {
        evals += 1;
        let got = match catch_unwind(AssertUnwindSafe(|| qr(c))) { Ok(g) => g, Err(_) => { fail(&mut n_fail, "qr_panics", format!("qr() panics for a content of {} bytes", c.len())); continue; } };
        match QRBuilder::new(c.as_bytes()).build() {
            Ok(q) => {
                let exp: Vec<u8> = (0..q.size * q.size).map(|k| q.data[k].value() as u8).collect();
                if got != exp { fail(&mut n_fail, "qr_matrix", format!("qr({:?}..) differs from the native build ({} vs {} bytes)", &c[..c.len().min(12)], got.len(), exp.len())); }
            }
            Err(_) => if !got.is_empty() { fail(&mut n_fail, "qr_matrix", "content cannot be encoded but qr() is not empty".into()); }
        }
    }
    // 4. SVG export == native builder with the same settings
    let shapes = [Shape::Square, Shape::Circle, Shape::RoundedSquare, Shape::Vertical, Shape::Horizontal, Shape::Diamond];
    let ishapes = [ImageBackgroundShape::Square, ImageBackgroundShape::Circle, ImageBackgroundShape::RoundedSquare];
    let mut k = 0usize;
    for c in &contents { for (si, sh) in shapes.iter().enumerate() { for margin in [0usize, 4, 9] {
        k += 1;
        let ecl = [None, Some(ECL::L), Some(ECL::H)][k % 3];
        let version = [None, Some(Version::V05), Some(Version::V01)][(k / 3) % 3];
        let col = ["#102030", "#a0b0c0d0", "bogus", "#fff"][k % 4];
        let with_image = k % 2 == 0;
        let size = if k % 4 == 0 { Some((6.0, 1.5)) } else { None };
        let pos = if k % 8 == 0 { Some((9.0, 11.0)) } else { None };
        let ish = ishapes[(k + si) % 3];
        evals += 1;
        let got = catch_unwind(AssertUnwindSafe(|| {
            let mut o = SvgOptions::new().shape(*sh).margin(margin).module_color(col.to_string()).background_color("#fefefe".to_string()).image_background_color("#010203".to_string()).image_background_shape(ish);
            if let Some(e) = ecl { o = o.ecl(e); }
            if let Some(v) = version { o = o.version(v); }
            if with_image { o = o.image("data:image/png;base64,AAAA".to_string()); }
            if let Some((s, g)) = size { o = o.image_size(s, g); }
            if let Some((x, y)) = pos { o = o.image_position(vec![x, y]); }
            qr_svg(c, o)
        }));
        let got = match got { Ok(g) => g, Err(_) => { fail(&mut n_fail, "qr_svg_panics", format!("qr_svg panics (content {} bytes, shape #{}, margin {})", c.len(), si, margin)); continue; } };
        let mut qb = QRBuilder::new(c.as_bytes());
        if let Some(e) = ecl { qb.ecl(e); }
        if let Some(v) = version { qb.version(v); }
        let exp = match qb.build() {
            Err(_) => String::new(),
            Ok(q) => {
                let mut b = SvgBuilder::default();
                b.shape(*sh).margin(margin).background_color([0xfeu8, 0xfe, 0xfe, 0xff]).image_background_color([1u8, 2, 3, 255]).image_background_shape(ish);
                match k % 4 { 0 => { b.module_color([0x10u8, 0x20, 0x30, 0xff]); } 1 => { b.module_color([0xa0u8, 0xb0, 0xc0, 0xd0]); } _ => { b.module_color([0u8, 0, 0, 255]); } }
                if with_image { b.image("data:image/png;base64,AAAA".to_string()); }
                if let Some((s, g)) = size { b.image_size(s); b.image_gap(g); }
                if let Some((x, y)) = pos { b.image_position(x, y); }
                b.to_str(&q)
            }
        };
        if got != exp {
            let d = got.bytes().zip(exp.bytes()).position(|(a, b)| a != b).unwrap_or(got.len().min(exp.len()));
            fail(&mut n_fail, "qr_svg_equals_native", format!("content {} bytes shape #{} margin {} ecl {:?} version {:?}: SVG differs from the native builder at byte {} (lengths {} / {})", c.len(), si, margin, ecl, version.map(|v| v as usize), d, got.len(), exp.len()));
        }
    } } }
    println!("C17-SUMMARY evaluations={} colour_strings={} failures={}", evals, all.len(), n_fail);
    assert!(n_fail == 0);
}
