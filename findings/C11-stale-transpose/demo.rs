// Demonstration for finding C11-stale-transpose (run as an integration test of fast_qr: tests/c11_demo.rs).
// Independent implementation of the penalty documented in src/score.rs, evaluated on the candidate of
// every mask (symbol built with that mask forced, format cells taken as reserved-light as at selection time).
// The automatic choice must be a minimiser.
use fast_qr::{Mask, ModuleType, QRBuilder, ECL};

const MASKS: [Mask; 8] = [
    Mask::Checkerboard, Mask::HorizontalLines, Mask::VerticalLines, Mask::DiagonalLines,
    Mask::LargeCheckerboard, Mask::Fields, Mask::Diamonds, Mask::Meadow,
];

fn line_penalty(cells: &[(bool, bool)]) -> u32 {
    // (value, is_data)
    let mut p = 0u32;
    let n = cells.len();
    let mut i = 0;
    while i < n {
        if !cells[i].1 { i += 1; continue; }
        let mut j = i;
        while j + 1 < n && cells[j + 1].1 && cells[j + 1].0 == cells[i].0 { j += 1; }
        let len = (j - i + 1) as u32;
        if len >= 5 { p += len - 2; }
        i = j + 1;
    }
    for s in 0..n.saturating_sub(6) {
        let w = &cells[s..s + 7];
        if w.iter().all(|c| c.1) {
            let v: Vec<bool> = w.iter().map(|c| c.0).collect();
            if v == [true, false, true, true, true, false, true] { p += 40; }
        }
    }
    p
}

fn penalty(m: &Vec<Vec<(bool, bool)>>) -> u32 {
    let n = m.len();
    let mut p = 0;
    for y in 0..n { p += line_penalty(&m[y]); }
    for x in 0..n { let col: Vec<(bool, bool)> = (0..n).map(|y| m[y][x]).collect(); p += line_penalty(&col); }
    for y in 0..n - 1 { for x in 0..n - 1 {
        let c = [m[y][x], m[y][x + 1], m[y + 1][x], m[y + 1][x + 1]];
        if c.iter().all(|c| c.1) && c.iter().all(|d| d.0 == c[0].0) { p += 3; }
    } }
    let dark = m.iter().flatten().filter(|c| c.0).count();
    let percent = dark * 100 / (n * n);
    p += 10 * (if percent >= 50 { (percent - 50) / 5 } else { (49 - percent) / 5 }) as u32;
    p
}

fn candidate(input: &str, ecl: ECL, mask: Mask) -> Vec<Vec<(bool, bool)>> {
    let q = QRBuilder::new(input).ecl(ecl).mask(mask).build().unwrap();
    let n = q.size;
    (0..n).map(|y| (0..n).map(|x| {
        let c = q.data[y * n + x];
        let t = c.module_type();
        (if t == ModuleType::Format { false } else { c.value() }, t == ModuleType::Data)
    }).collect()).collect()
}

#[test]
fn automatic_mask_minimises_documented_penalty() {
    let mut bad = Vec::new();
    for (input, ecl) in [("https://example.com/", ECL::L), ("HELLO WORLD", ECL::Q), ("0123456789012345678901234567890123456789", ECL::M), ("fast_qr", ECL::H)] {
        let auto = QRBuilder::new(input).ecl(ecl).build().unwrap();
        let chosen = auto.mask.unwrap() as usize;
        let pens: Vec<u32> = MASKS.iter().map(|m| penalty(&candidate(input, ecl, *m))).collect();
        let min = *pens.iter().min().unwrap();
        if pens[chosen] != min { bad.push(format!("{input:?} {ecl}: chosen mask {chosen} penalties {pens:?}")); }
    }
    assert!(bad.is_empty(), "automatic mask is not a minimiser:\n{}", bad.join("\n"));
}
